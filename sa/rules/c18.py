"""C18 - proof artefacts are emitted at exit only for successful runs, and completely.

R-C18-1  hook wiring: one module-level atexit.register(maybe(final)); ExitOverrider interposes sys.exit and
         sys.excepthook, keeps the originals, records before delegating and always delegates
R-C18-2  decision table of maybe_: the wrapped function runs iff exitcode in {None, 0} and no exception
R-C18-3  the exit hook cannot fail by itself (backend attributes touched by final() are interface members
         of every registry backend or accessed defensively)
R-C18-4  termination-mode model: every failing way of ending a script fires an interposed hook
"""
import ast

from ..cfg import CFG, calls_in
from ..loader import norm, AnalysisError, parents
from .c06 import get_interp

RT = "pysnark.runtime"
AM = "pysnark.atexitmaybe"


class _Obj:
    def __repr__(self):
        return "<object>"


def mini_eval(node, env):
    """Evaluate a boolean guard expression of the subset {and, or, not, is, is not, ==, !=, in, attribute, name,
    constant, tuple} on a table row.  (A table evaluation of an extracted expression; no repository code runs.)"""
    if isinstance(node, ast.Constant):
        return node.value
    if isinstance(node, (ast.Name, ast.Attribute)):
        t = norm(node)
        if t in env:
            return env[t]
        # self.F inside a method of the overrider is the instance's field; a property is evaluated
        if isinstance(node, ast.Attribute) and isinstance(node.value, ast.Name) and node.value.id in ("self", env.get("__inst__")):
            k = "%s.%s" % (env.get("__inst__"), node.attr)
            if k in env:
                return env[k]
            pm = env.get("__methods__", {}).get(node.attr)
            if pm is not None and any(isinstance(d_, ast.Name) and d_.id == "property" for d_ in pm.decorator_list):
                return _mini_call(pm, {}, env)
        raise KeyError(t)
    if isinstance(node, ast.Tuple) or isinstance(node, ast.List) or isinstance(node, ast.Set):
        return tuple(mini_eval(e, env) for e in node.elts)
    if isinstance(node, ast.UnaryOp) and isinstance(node.op, ast.Not):
        return not mini_eval(node.operand, env)
    if isinstance(node, ast.IfExp):
        return mini_eval(node.body, env) if mini_eval(node.test, env) else mini_eval(node.orelse, env)
    if isinstance(node, ast.Call) and isinstance(node.func, ast.Name) and node.func.id == "bool" and len(node.args) == 1 and not node.keywords:
        return bool(mini_eval(node.args[0], env))
    if isinstance(node, ast.Call) and not node.keywords:
        f = norm(node.func)
        TYPES = {"int": int, "bool": bool, "str": str, "float": float, "tuple": tuple, "list": list, "dict": dict, "bytes": bytes}
        args = [mini_eval(a, env) for a in node.args] if f != "isinstance" else None
        if f == "isinstance" and len(node.args) == 2:
            ts = node.args[1].elts if isinstance(node.args[1], (ast.Tuple, ast.List)) else [node.args[1]]
            if not all(norm(t) in TYPES for t in ts):
                raise KeyError("isinstance(.., %s)" % norm(node.args[1]))
            return isinstance(mini_eval(node.args[0], env), tuple(TYPES[norm(t)] for t in ts))
        if f in ("tuple.__len__", "len") and len(args) == 1 and isinstance(args[0], (tuple, list, str, dict)):
            return len(args[0])
        if f == "tuple.__getitem__" and len(args) == 2 and isinstance(args[0], tuple) and isinstance(args[1], int):
            return args[0][args[1]]
        if f in ("int.__index__", "int", "operator.index") and len(args) == 1 and isinstance(args[0], int):
            return int(args[0])
        if f in ("str", "repr") and len(args) == 1 and (args[0] is None or isinstance(args[0], (int, str, BaseException, tuple, list))):
            return str(args[0]) if f == "str" else repr(args[0])
        if f == "getattr" and len(args) == 3 and isinstance(args[1], str):
            import types as _types
            return getattr(args[0], args[1], args[2]) if isinstance(args[0], (type, BaseException, _types.SimpleNamespace)) else args[2]
        meths = env.get("__methods__", {})
        if isinstance(node.func, ast.Attribute) and isinstance(node.func.value, ast.Name) and node.func.attr in meths \
                and node.func.value.id in (env.get("__inst__"), "self", env.get("__cls__")):
            fn = meths[node.func.attr]
            ps = [a.arg for a in fn.args.args]
            static = any(isinstance(d_, ast.Name) and d_.id == "staticmethod" for d_ in fn.decorator_list)
            if not static:
                ps = ps[1:]
            if len(ps) != len(args):
                raise KeyError("call %s" % f)
            return _mini_call(fn, dict(zip(ps, args)), env)
        fns = env.get("__fns__", {})
        if isinstance(node.func, ast.Name) and node.func.id in fns:
            fn = fns[node.func.id]
            ps = [a.arg for a in fn.args.args]
            if len(ps) != len(args) or fn.args.vararg or fn.args.kwarg:
                raise KeyError("call %s" % f)
            return _mini_call(fn, dict(zip(ps, args)), env)
        raise KeyError("call %s" % f)
    if isinstance(node, ast.BoolOp):
        if isinstance(node.op, ast.And):
            r = True
            for v in node.values:
                r = mini_eval(v, env)
                if not r:
                    return r
            return r
        r = False
        for v in node.values:
            r = mini_eval(v, env)
            if r:
                return r
        return r
    if isinstance(node, ast.Compare):
        left = mini_eval(node.left, env)
        for op, c in zip(node.ops, node.comparators):
            right = mini_eval(c, env)
            if isinstance(op, ast.Is):
                ok = left is right
            elif isinstance(op, ast.IsNot):
                ok = left is not right
            elif isinstance(op, ast.Eq):
                ok = left == right
            elif isinstance(op, ast.NotEq):
                ok = left != right
            elif isinstance(op, ast.In):
                ok = any(left is x or left == x for x in right)
            elif isinstance(op, ast.NotIn):
                ok = not any(left is x or left == x for x in right)
            elif isinstance(op, (ast.Lt, ast.LtE, ast.Gt, ast.GtE)) and isinstance(left, int) and isinstance(right, int):
                ok = {ast.Lt: left < right, ast.LtE: left <= right, ast.Gt: left > right, ast.GtE: left >= right}[type(op)]
            else:
                raise KeyError(type(op).__name__)
            if not ok:
                return False
            left = right
        return True
    raise KeyError(type(node).__name__)


class _Ret(Exception):
    def __init__(self, v):
        self.v = v


def _mini_call(fn, local, env, depth=0):
    """table evaluation of a small module-level helper (if / assign / return over the constructs of mini_eval) on one row"""
    if depth > 4:
        raise KeyError("recursion")
    e2 = {k_: v_ for k_, v_ in env.items() if k_.startswith("__") or "." in k_ or k_ == "sys"}
    e2["None"] = None
    e2.update(local)

    def run(stmts):
        for s in stmts:
            if isinstance(s, ast.Expr) and isinstance(s.value, ast.Constant):
                continue
            if isinstance(s, ast.Return):
                raise _Ret(mini_eval(s.value, e2) if s.value is not None else None)
            if isinstance(s, ast.Assign) and len(s.targets) == 1 and isinstance(s.targets[0], ast.Name):
                e2[s.targets[0].id] = mini_eval(s.value, e2)
                continue
            if isinstance(s, ast.If):
                run(s.body if mini_eval(s.test, e2) else s.orelse)
                continue
            if isinstance(s, ast.Try) and not s.finalbody:
                run(s.body)          # the table objects do not make str() / getattr() fail
                continue
            raise KeyError("statement %s" % type(s).__name__)
    try:
        run(fn.body)
    except _Ret as r:
        return r.v
    return None


MODES = [
    # (mode, hook fired, failing?)   trusted base: CPython termination semantics
    ("fall off the end", None, False),
    ("sys.exit(None)", "sys.exit", False),
    ("sys.exit(0)", "sys.exit", False),
    ("sys.exit(n != 0)", "sys.exit", True),
    ("sys.exit('message')", "sys.exit", True),
    ("uncaught exception", "sys.excepthook", True),
    ("KeyboardInterrupt", "sys.excepthook", True),
    ("raise SystemExit(n != 0)", None, True),
    ("builtins.exit(n) / quit(n)", None, True),
]


def check(repo, rep, tier):
    rep.explanation = ("Exit-time behaviour is decided from the wiring (which hooks are interposed, where the single "
                       "atexit registration is, what the guard expression of maybe_ evaluates to on the finite abstract "
                       "domain of exit codes x exception states) joined with a stated table of CPython termination "
                       "modes.")
    rep.trusted = ["CPython termination-mode table (rules/c18.py MODES): which of sys.exit / sys.excepthook each way of "
                   "ending a script goes through", "atexit callbacks run once at normal interpreter shutdown"]
    rep.not_decided = ["terminations outside the table (os._exit, signals, threads)",
                       "a user calling backend.prove() by hand ('exactly once' beyond the single registration)"]
    rt = repo.module(RT)
    am = repo.module(AM)

    # ---------------- R-C18-1
    r1 = rep.rule("R-C18-1", "hook wiring", floor=4)
    regs = []
    for m in repo.modules.values():
        for n in ast.walk(m.tree):
            if isinstance(n, ast.Call) and norm(n.func) in ("atexit.register", "register") and \
                    ("atexit" in norm(n.func) or "atexit" in m.src):
                if norm(n.func) == "register" and "from atexit import" not in m.src:
                    continue
                regs.append((m, n))
    pys = [(m, n) for m, n in regs if not m.name.startswith("pysnark.qaptools.") and not m.name.startswith("pysnark.libsnark.")]
    if len(pys) != 1:
        r1.violation("%s:1" % rt.relpath, RT, "atexit.register calls: %s" % [(m.name, n.lineno) for m, n in pys],
                     "expected exactly one atexit registration (the proving step must run exactly once)", "register/count")
    else:
        m, n = pys[0]
        where = "%s:%s" % (m.relpath, n.lineno)
        nested = [p for p in parents(n) if isinstance(p, (ast.FunctionDef, ast.For, ast.While, ast.Lambda))]
        arg = n.args[0] if n.args else None
        if isinstance(arg, ast.Name):
            # atexit.register(cb) with cb = maybe(final) bound once at module level
            defs = [s for s in m.tree.body if isinstance(s, ast.Assign) and len(s.targets) == 1 and norm(s.targets[0]) == arg.id]
            if len(defs) == 1:
                arg = defs[0].value
        in_fn = [p_ for p_ in parents(n) if isinstance(p_, ast.FunctionDef)]
        once_fn = False
        if m.name == RT and len(in_fn) == 1 and not any(isinstance(p_, (ast.For, ast.While, ast.If, ast.Lambda, ast.Try)) for p_ in parents(n)):
            # registered inside a helper: it must run exactly once per execution of the module (one unconditional module-level call,
            # no other caller), the registration itself unconditional; the callback may be a module global the helper binds first
            fdef = in_fn[0]
            callers = [c_ for c_ in ast.walk(m.tree) if isinstance(c_, ast.Call) and isinstance(c_.func, ast.Name) and c_.func.id == fdef.name]
            top = [s_ for s_ in m.tree.body if isinstance(s_, ast.Expr) and isinstance(s_.value, ast.Call) and s_.value in callers]
            early = [x_ for x_ in ast.walk(fdef) if isinstance(x_, (ast.Return, ast.Raise)) and x_.lineno < n.lineno
                     and not any(isinstance(p_, (ast.FunctionDef, ast.Lambda)) and p_ is not fdef for p_ in parents(x_))]
            if early:
                r1.violation("%s:%s" % (m.relpath, early[0].lineno), m.name, norm(early[0]),
                             "the helper that registers the exit callback can leave before the registration: on that path a run that "
                             "ends normally produces no proof", "register/early-exit")
            if len(callers) == 1 and len(top) == 1 and fdef in m.tree.body:
                once_fn = True
                if isinstance(n.args[0] if n.args else None, ast.Name):
                    defs = [s_ for s_ in ast.walk(fdef) if isinstance(s_, ast.Assign) and len(s_.targets) == 1 and norm(s_.targets[0]) == n.args[0].id]
                    if len(defs) == 1:
                        arg = defs[0].value
        if (m.name != RT or nested) and not once_fn:
            r1.violation(where, m.name, norm(n), "registration is not a single module-level statement of pysnark.runtime",
                         "register/place")
        elif not (isinstance(arg, ast.Call) and norm(arg.func).endswith("maybe") and len(arg.args) == 1):
            r1.violation(where, m.name, norm(n), "the exit callback is not wrapped by maybe(): it would run after failing "
                         "exits too", "register/maybe")
        else:
            cb = arg.args[0]
            fi = repo.fn(RT, norm(cb), required=False) if isinstance(cb, ast.Name) else None
            if isinstance(cb, ast.Lambda) or fi is not None:
                r1.ok(where, RT, norm(n), "registered once, at module level, wrapped by maybe(); callback reads "
                                          "backend/autoprove when called")
            else:
                r1.violation(where, RT, norm(n), "callback is not a function of pysnark.runtime evaluated at exit", "register/cb")
    eo = None
    for ci in am.classes.values():
        init = ci.methods.get("__init__")
        if init and "sys.exit" in norm(init.node) and "sys.excepthook" in norm(init.node):
            eo = ci
    # the other design: uncaught exceptions are not caught by a hook of our own but read, at exit, from the interpreter's record
    # (sys.last_exc / sys.last_value are set by the interpreter BEFORE it calls whatever sys.excepthook is installed - trusted)
    interp_record = None          # (attribute name, FunctionInfo of the property / method reading the record)
    if eo is None:
        for ci in am.classes.values():
            init = ci.methods.get("__init__")
            if not (init and "sys.exit" in norm(init.node)):
                continue
            for mn_, mf_ in ci.methods.items():
                if not isinstance(mf_.node, ast.FunctionDef) or mn_ == "__init__":
                    continue
                reads_ = {c_.args[1].value for c_ in ast.walk(mf_.node) if isinstance(c_, ast.Call) and norm(c_.func) == "getattr"
                          and len(c_.args) == 3 and norm(c_.args[0]) == "sys" and isinstance(c_.args[1], ast.Constant) and norm(c_.args[2]) == "None"}
                reads_ |= {x_.attr for x_ in ast.walk(mf_.node) if isinstance(x_, ast.Attribute) and norm(x_.value) == "sys"
                           and x_.attr in ("last_exc", "last_value")}
                if "last_value" in reads_ and any(isinstance(d_, ast.Name) and d_.id == "property" for d_ in mf_.node.decorator_list):
                    eo, interp_record = ci, (mn_, mf_)
    if eo is None:
        raise AnalysisError("no class interposing sys.exit and sys.excepthook found in pysnark.atexitmaybe")
    init = eo.methods["__init__"]
    hooks = {}
    # straight-line simulation of the constructor: a local holds what was read into it (prev = sys.exit; ...; self._exit = prev)
    reads = {}          # local name -> (text read, index of the reading statement)
    saves, insts = {}, {}
    for idx, s in enumerate(init.node.body):
        if not (isinstance(s, ast.Assign) and len(s.targets) == 1):
            continue
        # a, b = x, y : both right-hand sides are read before either target is written
        if isinstance(s.targets[0], (ast.Tuple, ast.List)) and isinstance(s.value, (ast.Tuple, ast.List)) \
                and len(s.targets[0].elts) == len(s.value.elts):
            pairs = list(zip(s.targets[0].elts, s.value.elts))
        else:
            pairs = [(s.targets[0], s.value)]
        vals = []
        for _t, v in pairs:
            vt, ridx = norm(v), idx - 0.5 if len(pairs) > 1 else idx
            if isinstance(v, ast.Name) and v.id in reads:
                vt, ridx = reads[v.id]
            vals.append((vt, ridx))
        for (t_, _v), (vt, ridx) in zip(pairs, vals):
            tt = norm(t_)
            if isinstance(t_, ast.Name):
                reads[tt] = (vt, ridx)
            elif tt.startswith("self.") and vt in ("sys.exit", "sys.excepthook"):
                saves.setdefault(vt, (s, ridx, tt))
            elif tt in ("sys.exit", "sys.excepthook") and vt.startswith("self."):
                insts.setdefault(tt, (s, idx, vt))
    for hook in ("sys.exit", "sys.excepthook"):
        save = [saves[hook][0]] if hook in saves else []
        inst = [insts[hook][0]] if hook in insts else []
        where = init.loc()
        if hook == "sys.excepthook" and interp_record is not None and not inst:
            r1.ok(interp_record[1].loc(), interp_record[1].fq, "property `%s` reads sys.last_exc / sys.last_value" % interp_record[0],
                  "uncaught exceptions are taken from the interpreter's own record, which is written before any excepthook runs "
                  "(so a hook installed later cannot hide them)")
            continue
        if save and inst and saves[hook][1] < insts[hook][1]:
            saved_as = saves[hook][2]
            meth = insts[hook][2].split(".", 1)[1]
            hooks[hook] = (saved_as, meth)
            r1.ok(init.loc(inst[0]), init.fq, "%s saved as %s, replaced by self.%s" % (hook, saved_as, meth))
        else:
            r1.violation(where, init.fq, norm(init.node.body)[:200], "%s is not interposed with the original kept" % hook,
                         "interpose/" + hook)
    # the instance exists at import
    inst_name = None
    for n in am.tree.body:
        if isinstance(n, ast.Assign) and isinstance(n.value, ast.Call) and norm(n.value.func) == eo.name:
            inst_name = norm(n.targets[0])
    if inst_name is None:
        r1.violation("%s:1" % am.relpath, AM, "no module-level instance of %s" % eo.name,
                     "the overrider is never installed", "interpose/instance")
    recorded = {}
    record_expr = {}      # hook -> (expression stored, hook method)
    for hook, (saved_as, meth) in hooks.items():
        fi = eo.methods.get(meth)
        if fi is None:
            r1.violation(init.loc(), init.fq, meth, "replacement method missing", "method/" + hook)
            continue
        cfg = CFG(fi.node)
        dom = cfg.dominators()
        stores = [n for n in range(cfg.n) if cfg.kind[n] == "stmt" and isinstance(cfg.stmt[n], ast.Assign)
                  and norm(cfg.stmt[n].targets[0]).startswith("self.")]
        dels = [n for n in range(cfg.n) if cfg.kind[n] == "stmt" and any(
            norm(c.func) == saved_as for c in calls_in(cfg.stmt[n]))]
        where = fi.loc()
        if not stores:
            r1.violation(where, fi.fq, norm(fi.node.body), "%s replacement records nothing" % hook, "record/" + hook)
            continue
        if not dels:
            r1.violation(where, fi.fq, norm(fi.node.body), "%s replacement does not delegate to the original" % hook,
                         "delegate/" + hook)
            continue
        d = dels[0]
        rec_first = all(s in dom[d] for s in stores[:1])
        reach = cfg.reach_avoiding(cfg.entry, set(dels))
        always = cfg.exit not in reach
        # what is recorded, and the delegate passes the same arguments through
        st = cfg.stmt[stores[0]]
        recorded[hook] = (norm(st.targets[0]).split(".", 1)[1], norm(st.value))
        record_expr[hook] = (st.value, fi)
        params = fi.params[1:]
        call = [c for c in calls_in(cfg.stmt[d]) if norm(c.func) == saved_as][0]
        passed = [norm(a.value if isinstance(a, ast.Starred) else a) for a in call.args]
        same_args = all(p in passed for p in params)
        if rec_first and always and same_args:
            r1.ok(where, fi.fq, "records %s = %s, then always delegates %s(%s)" % (
                recorded[hook][0], recorded[hook][1], saved_as, ", ".join(passed)))
        else:
            why = []
            if not rec_first:
                why.append("delegates before recording (sys.exit raises: the record would never happen)")
            if not always:
                why.append("does not delegate on every path (exit status / traceback would change)")
            if not same_args:
                why.append("does not pass its arguments through")
            r1.violation(where, fi.fq, norm(fi.node.body)[:200], "; ".join(why), "hook/" + hook)

    # ---------------- R-C18-2
    r2 = rep.rule("R-C18-2", "decision table of the maybe() wrapper", floor=14)
    maybe = repo.fn(AM, "maybe")
    inner = [f for f in maybe.children.values()]
    if not inner:
        raise AnalysisError("maybe() has no inner function")
    inner = inner[0]
    param = maybe.params[0]
    from ..hints import paths_to
    fcalls = [c for c in ast.walk(inner.node) if isinstance(c, ast.Call) and norm(c.func) == param]
    if len(fcalls) != 1:
        r2.violation(inner.loc(), inner.fq, norm(inner.node.body)[:200],
                     "the wrapped function is called %d times in the wrapper (expected exactly one guarded call)" % len(fcalls),
                     "maybe/shape")
    else:
        paths = paths_to(inner.node, fcalls[0])
        ec_attr = recorded.get("sys.exit", ("exitcode", ""))[0]
        ex_attr = recorded.get("sys.excepthook", ("exception", ""))[0]
        inst = inst_name or "override"
        o = _Obj()
        rows = []
        guard_txt = " | ".join(" & ".join(("" if pol else "not ") + "(" + norm(t) + ")" for t, pol in p_.conds) or "always" for p_ in paths)
        # abstract exit codes: what sys.exit(x) turns into -- None/0 -> status 0; any other object -> non-zero status
        # (falsy non-zero objects such as '' or [] included: CPython prints them and exits with status 1)
        # the first row is "sys.exit never called" (the field keeps its initial None); on the others the field holds what the
        # interposed sys.exit stores for that argument (the argument itself, or something computed from it - evaluated on the row)
        for ec_label, ec, called in (("None (sys.exit not called)", None, False), ("None", None, True), ("0", 0, True), ("3", 3, True),
                                     ("True", True, True), ("'msg'", "msg", True), ("object", o, True), ("''", "", True), ("[]", [], True)):
            for ex_label, ex in (("None", None), ("raised", RuntimeError("x")), ("raised without arguments", RuntimeError())):
                if interp_record is not None:
                    ex_attr = interp_record[0]
                env = {"%s.%s" % (inst, ec_attr): ec, "%s.%s" % (inst, ex_attr): ex, "None": None,
                       "__fns__": {s_.name: s_ for s_ in am.tree.body if isinstance(s_, ast.FunctionDef)},
                       "__methods__": {k_: v_.node for k_, v_ in eo.methods.items() if isinstance(v_.node, ast.FunctionDef)},
                       "__inst__": inst, "__cls__": eo.name}
                # the field holds what the interposed excepthook stores for this exception (the object itself, or something
                # computed from it - evaluated on the row)
                if called and "sys.exit" in record_expr:
                    rx, hf = record_expr["sys.exit"]
                    hp = [a.arg for a in hf.node.args.args][1:]
                    henv = dict(env)
                    if hp:
                        henv[hp[0]] = ec
                    try:
                        env["%s.%s" % (inst, ec_attr)] = mini_eval(rx, henv)
                    except KeyError as e_:
                        r2.undecided(inner.loc(), inner.fq, norm(rx)[:80], "what the exit hook records is outside the table evaluator: %s" % e_)
                        rows = None
                        break
                if ex is not None and "sys.excepthook" in record_expr:
                    rx, hf = record_expr["sys.excepthook"]
                    hp = [a.arg for a in hf.node.args.args][1:]
                    henv = dict(env)
                    for nm_, val_ in zip(hp, (type(ex), ex, None)):
                        henv[nm_] = val_
                    try:
                        env["%s.%s" % (inst, ex_attr)] = mini_eval(rx, henv)
                    except KeyError as e_:
                        r2.undecided(inner.loc(), inner.fq, norm(rx)[:80], "what the exception hook records is outside the table evaluator: %s" % e_)
                        rows = None
                        break
                envs = [env]
                if interp_record is not None:
                    # the record as the interpreter leaves it: both names (3.12+), or sys.last_value only (before 3.12)
                    import types as _types
                    env.pop("%s.%s" % (inst, ex_attr), None)
                    envs = []
                    for both in (True, False):
                        e3 = dict(env)
                        ns = _types.SimpleNamespace()
                        if ex is not None:
                            ns.last_value = ex
                            if both:
                                ns.last_exc = ex
                        e3["sys"] = ns
                        envs.append(e3)
                runs = False
                try:
                  for env in envs:
                    for p_ in paths:
                        env2 = dict(env)
                        feasible = True
                        for st in p_.steps:
                            if st[0] == "assign":
                                env2[st[1]] = mini_eval(st[2], env2)
                            elif bool(mini_eval(st[1], env2)) != st[2]:
                                feasible = False
                                break
                        if feasible:
                            runs = True
                except KeyError as e:
                    r2.undecided(inner.loc(), inner.fq, guard_txt[:160], "guard uses a construct outside the table evaluator: %s" % e)
                    rows = None
                    break
                want = (ec is None or (isinstance(ec, int) and not isinstance(ec, bool) and ec == 0)) and ex is None
                rows.append((ec_label, ex_label, runs, want))
            if rows is None:
                break
        for ec_label, ex_label, runs, want in rows or []:
            term = "exitcode=%s exception=%s -> proving step %s" % (ec_label, ex_label, "runs" if runs else "skipped")
            if runs == want:
                r2.ok(inner.loc(fcalls[0]), inner.fq, term)
            else:
                r2.violation(inner.loc(fcalls[0]), inner.fq, term + " (reached when: %s)" % guard_txt[:200],
                             "proving step %s for exitcode=%s, exception=%s" % (
                                 "runs although the script failed" if runs else "is skipped although the script succeeded",
                                 ec_label, ex_label), "table/%s/%s" % (ec_label, ex_label))

    # ---------------- R-C18-3
    r3 = rep.rule("R-C18-3", "the exit hook cannot fail by itself", floor=1)
    final = None
    if len(pys) == 1 and pys[0][1].args and isinstance(pys[0][1].args[0], ast.Call) and pys[0][1].args[0].args:
        cb = pys[0][1].args[0].args[0]
        if isinstance(cb, ast.Name):
            final = repo.fn(RT, cb.id, required=False)
    if final is None:
        r3.undecided("%s:1" % rt.relpath, RT, "exit callback", "callback function not resolved")
    else:
        from .c19 import find_registry
        _n, _node, rows_ = find_registry(rt)
        it = get_interp(repo)
        seen_sites = set()
        for attr, sites in sorted(it.backend_attrs.items()):
            for (mod, fi, node) in sites:
                if fi is not final or (attr, id(node)) in seen_sites:
                    continue
                seen_sites.add((attr, id(node)))
                defensive = isinstance(node, ast.Call)
                missing = [nm for nm, md in rows_ if md in repo.modules and attr not in repo.modules[md].bindings]
                where = final.loc(node)
                if defensive or not missing:
                    r3.ok(where, final.fq, "backend.%s" % attr, "defensive access" if defensive else "bound by every registry backend")
                else:
                    r3.violation(where, final.fq, "backend.%s" % attr,
                                 "AttributeError at interpreter exit for backends %s" % missing, "final/%s" % attr)

    # ---------------- R-C18-5
    r5 = rep.rule("R-C18-5", "with automatic proving on, the exit callback runs the proving step exactly once, whatever was traced", floor=1)
    if final is None:
        r5.undecided("%s:1" % rt.relpath, RT, "exit callback", "callback function not resolved")
    else:
        from ..hints import paths_to
        from ..flatten import resolve_locals
        proves = [c for c in ast.walk(final.node) if isinstance(c, ast.Call) and norm(c.func).endswith("backend.prove")]
        if len(proves) != 1 or any(isinstance(p_, (ast.For, ast.While)) for p_ in parents(proves[0])):
            r5.violation(final.loc(), final.fq, "%d calls of backend.prove()" % len(proves), "the proving step does not run exactly once",
                         "final/prove-count")
        else:
            pc = proves[0]
            extra = []
            auto_seen = False
            assigned_here = {x.id for x in ast.walk(final.node) if isinstance(x, ast.Name) and not isinstance(x.ctx, ast.Load)}
            for path in paths_to(final.node, pc):
                # feasibility: a test that is decided by a constant bound on this very path, or that contradicts an earlier
                # test of the same (unassigned) expression on this path, does not constrain the run
                consts, seen_, feasible, live = {}, {}, True, []
                for st_ in path.steps:
                    if st_[0] == "assign":
                        if isinstance(st_[2], ast.Constant):
                            consts[st_[1]] = st_[2].value
                        else:
                            consts.pop(st_[1], None)
                        continue
                    _k, t, pol = st_
                    core, p2 = t, pol
                    while isinstance(core, ast.UnaryOp) and isinstance(core.op, ast.Not):
                        core, p2 = core.operand, not p2
                    if isinstance(core, ast.Name) and core.id in consts:
                        if bool(consts[core.id]) != p2:
                            feasible = False
                        continue            # decided on this path
                    names_ = {x.id for x in ast.walk(core) if isinstance(x, ast.Name)}
                    if not (names_ & assigned_here):
                        key_ = norm(core)
                        if key_ in seen_ and seen_[key_] != p2:
                            feasible = False
                        seen_[key_] = p2
                    live.append((t, pol))
                if not feasible:
                    continue
                for t, pol in live:
                    tt = norm(resolve_locals(final.node, t))
                    if tt in ("autoprove", "runtime.autoprove", "pysnark.runtime.autoprove") and pol:
                        auto_seen = True
                    elif tt in ("not autoprove",) and not pol:
                        auto_seen = True
                    else:
                        extra.append(("" if pol else "not ") + tt)
            if extra:
                r5.violation(final.loc(pc), final.fq, "backend.prove() only if autoprove and %s" % " and ".join(sorted(set(extra))),
                             "a successful run with automatic proving on can end without the proving step (no artefacts) when `%s` "
                             "does not hold" % sorted(set(extra))[0], "final/prove-cond")
            elif not auto_seen:
                r5.violation(final.loc(pc), final.fq, norm(pc), "the proving step is not governed by `autoprove`: it also runs with "
                             "automatic proving off", "final/prove-auto")
            else:
                r5.ok(final.loc(pc), final.fq, "if autoprove: backend.prove()", "runs exactly when automatic proving is on")

    # ---------------- R-C18-6  what the hooks recorded is never forgotten
    r6 = rep.rule("R-C18-6", "the recorded exit code / exception is written by the interposed hooks only (never reset)", floor=2)
    rec_fields = {v[0] for v in recorded.values()}
    hook_meths = {meth for _saved, meth in hooks.values()}
    for m_ in repo.modules.values():
        for fi_ in m_.functions.values():
            if isinstance(fi_.node, ast.Lambda):
                continue
            for n_ in ast.walk(fi_.node):
                tg_ = n_.targets if isinstance(n_, ast.Assign) else ([n_.target] if isinstance(n_, (ast.AugAssign, ast.AnnAssign)) else (
                    n_.targets if isinstance(n_, ast.Delete) else []))
                own_ = [p for p in parents(n_) if isinstance(p, (ast.FunctionDef, ast.Lambda))]
                if not tg_ or (own_ and own_[0] is not fi_.node):
                    continue
                for t_ in tg_:
                    for e_ in (t_.elts if isinstance(t_, (ast.Tuple, ast.List)) else [t_]):
                        if not (isinstance(e_, ast.Attribute) and e_.attr in rec_fields):
                            continue
                        if m_.name != AM and not (isinstance(e_.value, ast.Name) and e_.value.id == "override"):
                            continue          # some other object's field of the same name
                        in_init = fi_.cls is eo and fi_.name == "__init__"
                        in_hook = fi_.cls is eo and fi_.name in hook_meths
                        if in_init or in_hook:
                            r6.ok(fi_.loc(n_), fi_.fq, norm(n_)[:80], "initialisation" if in_init else "recorded by the interposed hook")
                        else:
                            r6.violation(fi_.loc(n_), fi_.fq, norm(n_)[:80], "the recorded %s is overwritten outside the interposed hooks: a "
                                         "failing exit status recorded earlier is forgotten, and the proving step then runs for a run "
                                         "that ends with that status (SystemExit can still be propagating through finally / except-raise "
                                         "/ __exit__ blocks that run more code)" % e_.attr, "reset/%s/%s" % (fi_.qual, e_.attr))
    # ---------------- R-C18-4
    r4 = rep.rule("R-C18-4", "every failing termination mode fires an interposed hook (model table)", floor=9)
    rep.extra["termination_modes"] = [{"mode": m_, "hook": h, "failing": f} for m_, h, f in MODES]
    for mode, hook, failing in MODES:
        where = init.loc()
        if not failing:
            r4.ok(where, eo.fq, "%s: successful end, artefacts expected" % mode)
        elif hook is not None and hook in hooks and hook in recorded:
            r4.ok(where, eo.fq, "%s: fires %s (interposed, records %s)" % (mode, hook, recorded[hook][0]))
        elif hook == "sys.excepthook" and interp_record is not None:
            r4.ok(interp_record[1].loc(), eo.fq, "%s: the interpreter records the exception (sys.last_exc / sys.last_value) before it "
                  "calls any excepthook; read by `%s` at exit" % (mode, interp_record[0]))
        else:
            r4.violation(where, eo.fq, "%s: fires %s" % (mode, hook or "no interposable hook"),
                         "a run ending through `%s` with a non-zero status is not seen by the overrider: the proving step "
                         "runs and artefacts are written" % mode, "mode/" + mode.split("(")[0].strip().replace(" ", "-"))
