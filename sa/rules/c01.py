"""C01 - completeness: the honest witness satisfies every emitted constraint.

R-C01-1  who-may-emit: backend.add_constraint is reached only through runtime.add_constraint_unsafe;
         every call of add_constraint_unsafe / add_constraint is an instance of R-C01-2 / R-C01-3
R-C01-2  hint/constraint identity at every *unchecked* emission site: v*w - y == 0 as a polynomial
         identity of the hints (finite case splits on Iverson brackets / IfExp tests)
R-C01-3  every *checked* emission site also satisfies the identity on its honest path (needed when a true
         guard is active, because the integer self-check is skipped then), possibly using the dominating
         run-time check as a premise
R-C01-4  backends store exactly the value they are given
R-C01-5  guard discipline (shared instances of C08's rules): error suppression switched on by a false guard is
         switched off again on every exit, so checks are never off without the user having asked for it
"""
import ast
import re

from ..hints import NONE, pre_assume, replay, Valuer, all_cases, paths_to, NeedCase, Undecidable, Contradiction
from ..loader import norm, AnalysisError, parents
from ..poly import P
from .c06 import get_interp

RT = "pysnark.runtime"
PREMISES = {   # facts assumed inside a function, with the reason
    "pysnark.runtime:add_constraint": [("check", True)],   # check=False callers are verified at the call site (R-C01-2)
}


def honest(path):
    """Paths on which hints are honest: is_guard() true, ignore_errors() false."""
    for t, pol in path.conds:
        txt = norm(t)
        if (txt == "ignore_errors()" or txt.endswith(".ignore_errors()")) and pol:
            return False
    return True


def base_env(fi):
    env = {}
    for i, p in enumerate(fi.params):
        env[p] = P.sym("self" if (i == 0 and fi.cls is not None and p == "self") else p)
    return env


def mentions_guard(res):
    """does some non-zero residue of these site results mention the guard wire itself?"""
    return any(not isinstance(p, str) and not p.is_zero() and "guard" in p.symbols() for _path, cases in res for _d, p, _v in cases)


def param_domains(repo, fi):
    """{parameter: sorted small integers} for a private helper every call of which passes a masked value (`E & 3`, `E % 4`) or a
    literal for that parameter: the finite set of values the parameter can take, whatever E is"""
    if not fi.name.startswith("_") or fi.name.startswith("__"):
        return {}
    calls = []
    for m in repo.modules.values():
        for c in ast.walk(m.tree):
            if isinstance(c, ast.Call) and norm(c.func).split(".")[-1] == fi.name and not c.keywords:
                calls.append(c)
    params = [p_ for p_ in fi.params if p_ not in ("self", "cls")]
    if not calls:
        return {}
    out = {}
    for i, p_ in enumerate(params):
        dom = set()
        for c in calls:
            if i >= len(c.args):
                dom = None
                break
            a = c.args[i]
            if isinstance(a, ast.Constant) and isinstance(a.value, int) and not isinstance(a.value, bool) and 0 <= a.value < 16:
                dom.add(a.value)
            elif isinstance(a, ast.BinOp) and isinstance(a.op, ast.BitAnd) and isinstance(a.right, ast.Constant) and a.right.value in (1, 3, 7, 15):
                dom.update(range(a.right.value + 1))
            elif isinstance(a, ast.BinOp) and isinstance(a.op, ast.Mod) and isinstance(a.right, ast.Constant) and isinstance(a.right.value, int) \
                    and 0 < a.right.value <= 16:
                dom.update(range(a.right.value))
            else:
                dom = None
                break
        if dom:
            out[p_] = sorted(dom)
    return out


def site_results(fi, call, premises=(), honest_premise=True, guard_value=None, bind=None):
    """honest_premise=False: the site emits unconditionally and unguarded (add_constraint_unsafe called directly), so
    the identity must hold on EVERY path and for either value of the active guard (LinComb.ONE is then the guard wire).
    guard_value "none" / 1 / 0: the scenario in which no guard is installed / the active guard has that value ("none" and 1 go
    with the honest premise, 0 with is_guard() false and nothing known about error checking).  Used for constraints written
    on the guard wire itself (`guard * y = 0`) and for emission code that distinguishes `guard is None`."""
    v_, w_, y_ = call.args[:3]
    paths = [p for p in paths_to(fi.node, call) if (honest(p) or not honest_premise)]
    out = []
    for path in paths:
        def assumptions(path=path):
            env = base_env(fi)
            for k_, v_ in (bind or {}).items():
                env[k_] = P.const(v_)
            if honest_premise:
                env["LinComb.ONE"] = P.const(1)
            if guard_value == "none":
                env["guard"] = NONE
            elif guard_value is not None:
                env["guard"] = env["guard.value"] = P.const(guard_value)
            v = Valuer(env)
            v.helpers = {s_.name: s_ for s_ in fi.module.tree.body if isinstance(s_, ast.FunctionDef)}
            v.split_disjunctions = True
            from .c02 import _returns_bits as _rb1
            v.bit_calls = lambda call_, fi_=fi: _rb1(fi_.module.repo, fi_, call_)
            if guard_value == 0:
                v.assume(ast.parse("is_guard()", mode="eval").body, False)
            t_g = ast.parse("is_guard()", mode="eval").body
            t_i = ast.parse("ignore_errors()", mode="eval").body
            if honest_premise:
                v.assume(t_g, True)
                v.assume(t_i, False)
            for nm, tr in premises:
                v.assume(ast.Name(id=nm, ctx=ast.Load()), tr)
            pre_assume(v, path)
            return v

        def build(v, path=path):
            replay(v, path)
            return v._p(v_) * v._p(w_) - v._p(y_)
        out.append((path, all_cases(build, assumptions)))
    return out


def emission_sites(repo):
    sites = []
    for m in repo.modules.values():
        for fi in m.functions.values():
            if isinstance(fi.node, ast.Lambda):
                continue
            for c in ast.walk(fi.node):
                if not isinstance(c, ast.Call):
                    continue
                owner = [p for p in parents(c) if isinstance(p, (ast.FunctionDef, ast.Lambda))]
                if owner and owner[0] is not fi.node:
                    continue
                f = norm(c.func)
                short = f.split(".")[-1]
                if short == "add_constraint_unsafe" and len(c.args) == 3:
                    sites.append((fi, c, "direct"))
                elif short == "add_constraint" and len(c.args) >= 3 and not f.startswith("backend.") \
                        and "backend.add_constraint" not in f:
                    unchecked = any(kw.arg == "check" and norm(kw.value) == "False" for kw in c.keywords) or (
                        len(c.args) > 3 and norm(c.args[3]) == "False")
                    sites.append((fi, c, "unsafe" if unchecked else "checked"))
    return sites


def check(repo, rep, tier):
    rep.explanation = ("Completeness holds in this code base for structural reasons: all constraints are emitted through "
                       "one function, and at every emission site the constraint is an identity of the witness hints "
                       "computed next to it (or follows from the dominating run-time check).  For each site the value "
                       "terms of v, w, y are built by path-sensitive def-use substitution of the hints and v*w-y is "
                       "normalised as a polynomial, splitting on the finitely many tests involved (sign, zero-ness, "
                       "divisibility, booleanity).")
    rep.trusted = ["decomposition lemma: the bits (E & (1<<i)) >> i, i < n, recompose to E when 0 <= E < 2^n",
                   "a * inv(a) = 1 for a != 0 in the prime field (backend.fieldinverse, C13)",
                   "bit_length(-x-1) <= bit_length(x) for x < 0"]
    rep.not_decided = ["arithmetic inside external provers / libsnark's protoboard",
                       "client code that switches error checking off"]
    rep.assumptions = ["honest path premise: is_guard() true and ignore_errors() false (the user has not switched checks off); "
                       "under a false guard every checked constraint goes through the dummy path (R-C07-3)"]
    it = get_interp(repo)
    # ---------------- R-C01-1
    r1 = rep.rule("R-C01-1", "backend.add_constraint is reached only through add_constraint_unsafe", floor=1)
    n_bk = 0
    for m in repo.modules.values():
        for fi in m.functions.values():
            for c in ast.walk(fi.node):
                if isinstance(c, ast.Call) and norm(c.func).endswith("backend.add_constraint"):
                    n_bk += 1
                    if fi.fq == RT + ":add_constraint_unsafe":
                        r1.ok(fi.loc(c), fi.fq, norm(c), "the single emission point (counts constraints, passes v.lc, w.lc, y.lc)")
                        args = [norm(a) for a in c.args]
                        ps = fi.params
                        if args != ["%s.lc" % ps[0], "%s.lc" % ps[1], "%s.lc" % ps[2]]:
                            r1.violation(fi.loc(c), fi.fq, norm(c), "emission point does not pass (v.lc, w.lc, y.lc) in order",
                                         "emit/args")
                    else:
                        r1.violation(fi.loc(c), fi.fq, norm(c), "constraint emitted to the backend outside "
                                     "add_constraint_unsafe: it bypasses the run-time self check and the guard", "emit/%s" % fi.fq)
    if n_bk == 0:
        raise AnalysisError("no call of backend.add_constraint found")
    # ---------------- R-C01-2 / R-C01-3
    r2 = rep.rule("R-C01-2", "unchecked emission sites: v*w - y is an identity of the hints", floor=5)
    r3 = rep.rule("R-C01-3", "checked emission sites: identity on the honest path (needed under a true guard)", floor=3)
    for fi, call, kind in emission_sites(repo):
        rule = r2 if kind in ("unsafe", "direct") else r3
        where = fi.loc(call)
        key_base = "%s/%s" % (fi.fq, norm(call)[:60])
        # the guard*dummy = 0 constraint of the guarded arm
        if fi.fq == RT + ":add_constraint" and norm(call.args[0]) == "guard":
            rule.ok(where, fi.fq, norm(call), "guard*dummy = 0: holds when the guard is 0; when it is 1, dummy = v*w - y must be 0, "
                                              "which is the checked site's own identity (R-C01-3)")
            continue
        direct = kind == "direct" and fi.fq != RT + ":add_constraint"
        res = site_results(fi, call, PREMISES.get(fi.fq, ()), honest_premise=not direct)
        on_guard = direct and any(not isinstance(p, str) and not p.is_zero() for _pa, cases in res for _d, p, _v in cases)
        if on_guard:
            # not an identity on every path: a constraint on the guard wire itself (guard * y = 0), or one emitted by code that
            # looks at whether a guard is installed.  By scenario: honest witness without a guard and under a true guard, any
            # recorded witness under a false one
            res = site_results(fi, call, PREMISES.get(fi.fq, ()), honest_premise=True, guard_value="none") + \
                site_results(fi, call, PREMISES.get(fi.fq, ()), honest_premise=True, guard_value=1) + \
                site_results(fi, call, PREMISES.get(fi.fq, ()), honest_premise=False, guard_value=0)
        doms = param_domains(repo, fi) if any(not isinstance(p_, str) and not p_.is_zero() for _pa, cases in res for _d, p_, _v in cases) else {}
        if doms and not on_guard:
            # a private helper whose callers all pass a masked value: the identity is shown for each value the parameter can take
            import itertools as _it
            names_ = sorted(doms)
            combos = list(_it.product(*[doms[n_] for n_ in names_]))
            if len(combos) <= 64:
                res = []
                for combo in combos:
                    res += site_results(fi, call, PREMISES.get(fi.fq, ()), honest_premise=not direct, bind=dict(zip(names_, combo)))
        if not res:
            rule.undecided(where, fi.fq, norm(call), "no honest path reaches this site")
            continue
        bad = []
        und = []
        ncases = 0
        lemmas = set()
        for path, cases in res:
            for desc, p, v in cases:
                ncases += 1
                if isinstance(p, str) and p.startswith("refuted"):
                    bad.append((desc, p))
                elif isinstance(p, str):
                    und.append((desc, p))
                elif not p.is_zero() and any(str(s_).startswith("?") for s_ in p.symbols()):
                    # the residue mentions a local whose value the analysis could not interpret (len(..), a sum over a list, a
                    # helper's result): nothing is known either way
                    und.append((desc, "not interpretable: v*w - y = %s" % p))
                elif not p.is_zero():
                    bad.append((desc, p))
                if v is not None:
                    lemmas.update(v.lemmas)
        term = "%s  [%d honest path(s), %d case(s)]" % (norm(call), len(res), ncases)
        if ncases == 0:
            rule.undecided(where, fi.fq, term, "every honest path is contradictory under the premises")
        elif bad:
            desc, p = bad[0]
            rule.violation(where, fi.fq, term + "  case {%s}: v*w - y = %s" % (", ".join(desc), p),
                           "the honestly computed witness does not satisfy this constraint%s" % (
                               " when " + " and ".join(desc) if desc else ""), key_base)
        elif und:
            rule.undecided(where, fi.fq, term, "; ".join("%s: %s" % (", ".join(d) or "-", u) for d, u in und[:2]))
        else:
            rule.ok(where, fi.fq, term, (("uses: " + "; ".join(sorted(lemmas))) if lemmas else "polynomial identity") + (
                "; by guard scenario: honest path without a guard and for guard = 1, every path for guard = 0" if on_guard else
                "; holds on every path and for either guard value (emitted unguarded)" if direct else ""))
    # a site may move between the two rules (a checked emission rewritten as a direct one); together they cover every site
    n_sites = sum(1 for r_ in (r2, r3) for i_ in r_.instances if i_.status in ("ok", "violation", "undecided"))
    if n_sites < 12:
        raise AnalysisError("only %d constraint emission sites analysed (R-C01-2 + R-C01-3), 12 were confirmed by hand" % n_sites)
    # ---------------- R-C01-5  (shared with C08)
    r5 = rep.rule("R-C01-5", "the premise 'checks not switched off' is not silently falsified: guard state is restored exactly", floor=10)
    from .c08 import guard_discipline
    guard_discipline(repo, r5)
    # ---------------- R-C01-4
    r4 = rep.rule("R-C01-4", "backends record exactly the value they are given", floor=6)
    for mod, lists in (("pysnark.snarkjsbackend", ("privvals", "pubvals")), ("pysnark.zkinterface.backend", ("privvals", "pubvals"))):
        m = repo.module(mod)
        for fn, lst in (("privval", lists[0]), ("pubval", lists[1])):
            fi = m.functions.get(fn)
            if fi is None:
                raise AnalysisError("%s.%s not found" % (mod, fn))
            app = [c for c in ast.walk(fi.node) if isinstance(c, ast.Call) and norm(c.func) == "%s.append" % lst]
            stored = norm(app[0].args[0]) if len(app) == 1 else ""
            if len(app) == 1 and (stored == fi.params[0] or re.match(r"^%s %% \w*(modulus|snarkjsp)\w*(\(\))?$" % re.escape(fi.params[0]), stored)):
                # the value itself, or its canonical representative modulo the field prime (congruent: the same constraints hold)
                r4.ok(fi.loc(), fi.fq, norm(app[0]))
            else:
                r4.violation(fi.loc(), fi.fq, "; ".join(norm(a) for a in app), "the value recorded for the new variable is not "
                             "the value given", "%s/store" % fi.fq)
    qb = repo.module("pysnark.qaptools.backend")
    for fn in ("privval", "pubval"):
        fi = qb.functions.get(fn)
        pw = [c for c in ast.walk(fi.node) if isinstance(c, ast.Call) and norm(c.func) in ("printwire", "printwireout")]
        if pw and all(norm(c.args[0]) == fi.params[0] for c in pw):
            r4.ok(fi.loc(), fi.fq, "; ".join(norm(c) for c in pw))
        else:
            r4.violation(fi.loc(), fi.fq, "; ".join(norm(c) for c in pw), "the value written for the new wire is not the value given",
                         "%s/store" % fi.fq)
    # PrivVal / PubVal hand the same value to the wire and to the Python-visible object
    for fn in ("PrivVal", "PubVal"):
        fi = repo.fn(RT, fn)
        rets = [n for n in ast.walk(fi.node) if isinstance(n, ast.Return)]
        c = rets[0].value if rets else None
        if isinstance(c, ast.Call) and len(c.args) == 2 and isinstance(c.args[1], ast.Call) and c.args[1].args \
                and norm(c.args[0]) == norm(c.args[1].args[0]) == fi.params[0]:
            r4.ok(fi.loc(), fi.fq, norm(c))
        else:
            r4.violation(fi.loc(), fi.fq, norm(c) if c is not None else "", "allocation does not give the backend the value it "
                         "reports", "%s/alloc" % fn)
