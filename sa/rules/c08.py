"""C08 - guard state is restored on every exit path and nests as a conjunction.

R-C08-1  save/restore symmetry between add_guard and restore_guard (same locations, same positions)
R-C08-2  every acquisition (add_guard) is released (restore_guard on the token) on every exit path
R-C08-3  no partial acquisition: nothing can raise after the first write to guard state in add_guard
R-C08-4  BranchContext.exit releases before anything that can raise; _elif/_else/_while exit before enter
R-C08-5  the new guard is the conjunction of the old guard and the condition; suppression only or-ed;
         constants mean the *new* guard
R-C08-6  only add_guard / restore_guard / ignore_errors write guard state
"""
import ast

from ..cfg import CFG, calls_in, own_stmt_part
from ..loader import norm, AnalysisError, target_names, parents
from ..poly import P

RT = "pysnark.runtime"
STATE = ("guard", "_ignore_errors", "LinComb.ONE")


def callee_name(call):
    f = call.func
    if isinstance(f, ast.Name):
        return f.id
    if isinstance(f, ast.Attribute):
        return f.attr
    return None


def state_writes(fnode, globals_declared):
    """[(stmt, location, value node)] for stores to guard state inside a function."""
    out = []
    for n in ast.walk(fnode):
        if isinstance(n, (ast.Assign, ast.AugAssign, ast.AnnAssign)):
            targets = n.targets if isinstance(n, ast.Assign) else [n.target]
            for t in targets:
                for loc in _locs(t, globals_declared):
                    out.append((n, loc, n.value))
    return out


def _locs(t, globals_declared):
    if isinstance(t, ast.Name) and t.id in globals_declared and t.id in ("guard", "_ignore_errors"):
        yield t.id
    elif isinstance(t, ast.Attribute):
        txt = norm(t)
        if txt.endswith("LinComb.ONE"):
            yield "LinComb.ONE"
        elif txt.endswith("runtime.guard"):
            yield "guard"
        elif txt.endswith("runtime._ignore_errors"):
            yield "_ignore_errors"
    elif isinstance(t, (ast.Tuple, ast.List)):
        for e in t.elts:
            yield from _locs(e, globals_declared)


def declared_globals(fnode):
    g = set()
    for n in ast.walk(fnode):
        if isinstance(n, ast.Global):
            g.update(n.names)
    return g


def fine_may_raise(s, kind):
    """Can this CFG node raise?  (calls, operators that dispatch, subscripts, raise)"""
    part = own_stmt_part(s, kind)
    # NAME.append((a, b, ..)) with plain names / constants as components: storing a tuple in a list does not dispatch to user code
    if isinstance(part, ast.Expr) and isinstance(part.value, ast.Call) and isinstance(part.value.func, ast.Attribute) \
            and part.value.func.attr == "append" and isinstance(part.value.func.value, ast.Name) and len(part.value.args) == 1 \
            and not part.value.keywords and isinstance(part.value.args[0], ast.Tuple) \
            and all(isinstance(e_, (ast.Name, ast.Constant)) for e_ in part.value.args[0].elts):
        return False
    for n in ast.walk(part):
        if isinstance(n, (ast.FunctionDef, ast.Lambda)) and n is not part:
            continue
        if isinstance(n, (ast.Call, ast.Raise, ast.Subscript, ast.BinOp, ast.Assert)):
            return True
        if isinstance(n, ast.UnaryOp) and not isinstance(n.op, ast.Not):
            return True
        if isinstance(n, ast.Compare):
            for side in [n.left] + n.comparators:
                if not (isinstance(side, (ast.Constant, ast.Name)) or
                        (isinstance(side, ast.Attribute) and side.attr == "value")):
                    return True
            if any(isinstance(side, ast.Name) for side in [n.left] + n.comparators) and \
                    not all(isinstance(o, (ast.Is, ast.IsNot)) for o in n.ops):
                # comparing a bare name with == may dispatch to a wire's __eq__
                if not any(isinstance(side, ast.Constant) for side in [n.left] + n.comparators):
                    return True
    return False


# ---------------------------------------------------------------------------------------------
def _stack_design(repo, rule, ag, rg, tokval, writes, W):
    """The saved state kept on a module-level stack L instead of in the token:
           add_guard:      token = len(L) ... L.append((G, I)) ... return token
           restore_guard:  while len(L) > token: (.., _ignore_errors) = L.pop()          (or a slice deletion after reading L[token])
                           guard = L[-1][g] if L else None ; LinComb.ONE = ONE_SAFE if guard is None else guard      (design "current")
                      or   (guard, _ignore_errors, ..) = the entry popped last                                          (design "previous")
       In design "current" the entry must hold the guard INSTALLED for the region (the conjunction), because that is what is
       re-installed when an inner region is left; in design "previous" it must hold the guard read BEFORE it is overwritten.
       _ignore_errors is always the value read before add_guard updates it.  Returns W when the design was recognised."""
    if not (isinstance(tokval, ast.Call) and norm(tokval.func) == "len" and len(tokval.args) == 1 and isinstance(tokval.args[0], ast.Name)):
        return None
    L = tokval.args[0].id
    if L not in repo.module(RT).bindings:
        return None
    appends = [c for c in ast.walk(ag.node) if isinstance(c, ast.Call) and isinstance(c.func, ast.Attribute) and c.func.attr == "append"
               and norm(c.func.value) == L and len(c.args) == 1 and isinstance(c.args[0], ast.Tuple)]
    if not appends:
        return None
    from ..loader import precedes
    param = rg.params[0] if rg.params else None
    rtxt = norm(rg.node).replace(" ", "")
    pops = [a for a in ast.walk(rg.node) if isinstance(a, ast.Assign) and isinstance(a.value, ast.Call) and norm(a.value.func) == "%s.pop" % L
            and isinstance(a.targets[0], (ast.Tuple, ast.List))]
    loop_ok = any(isinstance(w, ast.While) and norm(w.test).replace(" ", "") in ("len(%s)>%s" % (L, param), "%s<len(%s)" % (param, L))
                  and any(p_ in ast.walk(w) for p_ in pops) for w in ast.walk(rg.node))
    if not pops or not loop_ok:
        rule.undecided(rg.loc(), rg.fq, "stack `%s`" % L, "restore_guard does not unwind the stack with `while len(%s) > %s: .. = %s.pop()`" % (L, param, L))
        return W
    popped = {norm(e): i for i, e in enumerate(pops[0].targets[0].elts)}
    gwrites_r = [(s, v) for s, loc, v in state_writes(rg.node, declared_globals(rg.node)) if loc == "guard"]
    current = None
    for s, v in gwrites_r:
        vt = norm(v).replace(" ", "")
        import re as _re
        m = _re.fullmatch(r"%s\[-1\]\[(\d+)\]if%s elseNone".replace(" ", "") % (L, L), vt) or _re.fullmatch(r"%s\[-1\]\[(\d+)\]if%selseNone" % (L, L), vt) \
            or _re.fullmatch(r"%s\[-1\]\[(\d+)\]iflen\(%s\)(?:>0)?elseNone" % (L, L), vt)
        if m:
            current = int(m.group(1))
    gi_prev = popped.get("guard")
    if current is None and gi_prev is None:
        rule.violation(rg.loc(), rg.fq, "guard writes: %s" % [norm(v) for _s, v in gwrites_r], "restore_guard does not re-install the guard "
                       "from the stack (neither the entry popped last nor the entry that stays on top)", "restore/guard")
        return W
    ii = popped.get("_ignore_errors")
    if ii is None:
        rule.violation(rg.loc(), rg.fq, "popped into: %s" % sorted(popped), "restore_guard does not restore `_ignore_errors` from the popped entry",
                       "restore/_ignore_errors")
    else:
        rule.ok(rg.loc(pops[0]), rg.fq, "_ignore_errors <- component %d of the entry popped last" % ii)
    for a in appends:
        elts = a.args[0].elts
        stmt = a
        while not isinstance(stmt, ast.stmt):
            stmt = stmt._parent if hasattr(stmt, "_parent") else next(p_ for p_ in parents(stmt))
        gw = [(s, v) for s, loc, v in writes if loc == "guard"]
        iw = [(s, v) for s, loc, v in writes if loc == "_ignore_errors"]
        # suppression component: `_ignore_errors` read before add_guard updates it
        if ii is not None:
            ok_i = ii < len(elts) and norm(elts[ii]) == "_ignore_errors" and not any(precedes(ag.node, s, stmt) for s, _v in iw)
            if ok_i:
                rule.ok(ag.loc(a), ag.fq, "entry[%d] = _ignore_errors, read before it is updated" % ii)
            else:
                rule.violation(ag.loc(a), ag.fq, norm(a), "the stack entry does not hold the error-suppression flag as it was before this "
                               "region was entered", "save/_ignore_errors")
        gi = current if current is not None else gi_prev
        if gi >= len(elts):
            rule.violation(ag.loc(a), ag.fq, norm(a), "the stack entry has no component %d for the guard" % gi, "save/guard")
            continue
        ge = norm(elts[gi])
        after = [s for s, _v in gw if precedes(ag.node, s, stmt)]
        rhs = {norm(v) for _s, v in gw}
        if current is not None:
            good = (ge == "guard" and bool(after)) or (ge in rhs and ge != "guard")
            why = "design `current`: the entry on top of the stack is re-installed when an inner region is left, so it must hold the guard " \
                  "installed for this region (the conjunction with the enclosing guard)"
        else:
            good = ge == "guard" and not after
            why = "design `previous`: the popped entry is re-installed, so it must hold the guard as it was before this region"
        if good:
            rule.ok(ag.loc(a), ag.fq, "entry[%d] = %s" % (gi, ge), why)
        else:
            rule.violation(ag.loc(a), ag.fq, "entry[%d] = %s; guard is written as %s" % (gi, ge, sorted(rhs)),
                           "the stack records `%s`, which is not the guard that has to be re-installed (%s): after leaving an inner region "
                           "the enclosing region runs under a guard that is not the conjunction of its conditions" % (ge, why.split(":")[0]),
                           "save/guard")
    ones = [(s, v) for s, loc, v in state_writes(rg.node, declared_globals(rg.node)) if loc == "LinComb.ONE"]
    if "LinComb.ONE" in W:
        if any(norm(v).replace(" ", "") in ("LinComb.ONE_SAFEifguardisNoneelseguard", "guardifguardisnotNoneelseLinComb.ONE_SAFE") for _s, v in ones) \
                or "LinComb.ONE" in popped:
            rule.ok(rg.loc(ones[0][0]) if ones else rg.loc(), rg.fq, "LinComb.ONE follows the re-installed guard")
        else:
            rule.violation(rg.loc(), rg.fq, "LinComb.ONE writes: %s" % [norm(v) for _s, v in ones], "restore_guard does not restore `LinComb.ONE`",
                           "restore/LinComb.ONE")
    return W


def rule_symmetry(repo, rule):
    ag = repo.fn(RT, "add_guard")
    rg = repo.fn(RT, "restore_guard")
    gl = declared_globals(ag.node)
    writes = state_writes(ag.node, gl)
    W = sorted({loc for _s, loc, _v in writes})
    # the token
    ret = [n for n in ast.walk(ag.node) if isinstance(n, ast.Return) and n.value is not None]
    # an exit that hands out no state (return None / bare return) opens a region whose exit can undo nothing: whatever the body
    # changes - ignore_errors(True), a nested region left open by an exception - stays in force after the region
    empty = [n for n in ast.walk(ag.node) if isinstance(n, ast.Return) and (n.value is None or norm(n.value) in ("None", "()", "False", "0"))]
    if empty and len(ret) > len([e for e in empty if e.value is not None]):
        rule.violation(ag.loc(empty[0]), ag.fq, "return %s" % (norm(empty[0].value) if empty[0].value is not None else ""),
                       "add_guard can complete without handing out the saved state: a region entered on that path is never "
                       "restored, so changes made inside it (error suppression, a nested region left open by an exception) "
                       "outlive it", "save/none-token")
        ret = [r for r in ret if r not in empty]
    # several exits may hand out the token, as long as it is the same one (`return bak` on the public and the secret path)
    if len(ret) > 1 and len({norm(r.value) for r in ret}) == 1 and isinstance(ret[0].value, ast.Name):
        ret = ret[:1]
    tokval = ret[0].value if len(ret) == 1 else None
    tokstmt = None
    if isinstance(tokval, ast.Name):
        # token built earlier and returned by name:  bak = (guard, _ignore_errors, LinComb.ONE) ... return bak
        defs = [n for n in ast.walk(ag.node) if isinstance(n, ast.Assign) and len(n.targets) == 1 and norm(n.targets[0]) == tokval.id]
        if len(defs) == 1:
            tokstmt, tokval = defs[0], defs[0].value
    if len(ret) == 1 and not isinstance(tokval, ast.Tuple):
        st = _stack_design(repo, rule, ag, rg, tokval, writes, W)
        if st is not None:
            return st
    if len(ret) != 1 or not isinstance(tokval, ast.Tuple):
        rule.undecided(ag.loc(), ag.fq, norm(ret), "token is not a single literal tuple")
        return None
    names = [norm(e) for e in tokval.elts]
    saved = []
    cfg = CFG(ag.node)
    dom = cfg.dominators()
    node_of = {id(cfg.stmt[n]): n for n in range(cfg.n) if cfg.kind[n] == "stmt"}
    for nm in names:
        if nm in ("guard", "_ignore_errors") or nm.endswith("LinComb.ONE"):
            # the state location is read directly into the token
            saved.append((nm, "LinComb.ONE" if nm.endswith("LinComb.ONE") else nm, tokstmt))
            continue
        src = [n for n in ast.walk(ag.node) if isinstance(n, ast.Assign) and len(n.targets) == 1
               and norm(n.targets[0]) == nm]
        if len(src) != 1:
            saved.append((nm, None, None))
            continue
        v = norm(src[0].value)
        loc = "LinComb.ONE" if v.endswith("LinComb.ONE") else v
        saved.append((nm, loc, src[0]))
    saved_locs = [loc for _n, loc, _s in saved]
    for loc in W:
        where = ag.loc()
        if loc not in saved_locs:
            rule.violation(where, ag.fq, "written: %s; saved: %s" % (W, saved_locs),
                           "add_guard writes `%s` but does not save it in its token" % loc, "save/" + loc)
            continue
        nm, _l, s = saved[saved_locs.index(loc)]
        sn = node_of.get(id(s))
        bad = [w for w, l, _v in writes if l == loc and not (sn is not None and sn in dom.get(node_of.get(id(w), -1), set()))]
        if bad:
            rule.violation(ag.loc(bad[0]), ag.fq, "%s = %s" % (nm, loc),
                           "`%s` is saved after (or not on every path before) it is overwritten" % loc, "save-order/" + loc)
        else:
            rule.ok(ag.loc(s), ag.fq, "%s saved as token[%d] before first write" % (loc, saved_locs.index(loc)))
    # restore side
    rgl = declared_globals(rg.node)
    param = rg.params[0] if rg.params else None
    posname = {}
    for n in ast.walk(rg.node):
        if isinstance(n, ast.Assign) and norm(n.value) == param and isinstance(n.targets[0], (ast.Tuple, ast.List)):
            for i, e in enumerate(n.targets[0].elts):
                posname[norm(e)] = i
    rwrites = state_writes(rg.node, rgl)
    restored = {}
    direct_unpack = {}
    for n in ast.walk(rg.node):
        if isinstance(n, ast.Assign) and norm(n.value) == param and isinstance(n.targets[0], (ast.Tuple, ast.List)):
            for i, e in enumerate(n.targets[0].elts):
                for loc in _locs(e, rgl):
                    direct_unpack[loc] = i
    for s, loc, v in rwrites:
        vt = norm(v)
        if vt in posname:
            restored[loc] = posname[vt]
        elif isinstance(v, ast.Subscript) and norm(v.value) == param and isinstance(v.slice, ast.Constant):
            restored[loc] = v.slice.value
        elif loc in direct_unpack:
            restored[loc] = direct_unpack[loc]
        else:
            restored[loc] = ("?", vt)
    # every completing path of restore_guard performs the restoring writes (no early return that skips them)
    rcfg = CFG(rg.node)
    wn = {n for n in range(rcfg.n) if rcfg.stmt[n] is not None and any(rcfg.stmt[n] is s for s, _l, _v in rwrites)}
    if wn and rcfg.exit in rcfg.reach_avoiding(rcfg.entry, wn):
        rule.violation(rg.loc(), rg.fq, "a path to return avoids %s" % "; ".join(sorted({norm(rcfg.stmt[n])[:50] for n in wn})),
                       "restore_guard can return without restoring the guard state", "restore/skipped")
    for loc in W:
        if loc not in saved_locs:
            continue
        want = saved_locs.index(loc)
        got = restored.get(loc)
        if got is None:
            rule.violation(rg.loc(), rg.fq, "restored: %s" % sorted(restored), "restore_guard does not restore `%s`" % loc,
                           "restore/" + loc)
        elif got != want:
            rule.violation(rg.loc(), rg.fq, "%s <- token[%s], saved at token[%d]" % (loc, got, want),
                           "restore_guard restores `%s` from the wrong token component" % loc, "restore-pos/" + loc)
        else:
            rule.ok(rg.loc(), rg.fq, "%s <- token[%d]" % (loc, want))
    return W


def rule_release(repo, rule, include_clients=False, skip_field_tokens=False):
    mods = list(repo.modules.values()) + (list(repo.clients.values()) if include_clients else [])
    for m in mods:
        for fi in m.functions.values():
            if isinstance(fi.node, ast.Lambda):
                continue
            own_calls = []
            for s in _own_statements(fi.node):
                for c in calls_in(own_stmt_part(s, _kind_of(s))):
                    if callee_name(c) == "add_guard":
                        own_calls.append((s, c))
            if not own_calls:
                continue
            cfg = CFG(fi.node)
            for s, c in own_calls:
                where = fi.loc(c)
                acq = [n for n in range(cfg.n) if cfg.stmt[n] is s]
                if not acq:
                    rule.undecided(where, fi.fq, norm(s), "acquisition not found in CFG")
                    continue
                acq = acq[0]
                if isinstance(s, ast.Assign) and len(s.targets) == 1 and isinstance(s.targets[0], ast.Name):
                    tok = s.targets[0].id
                    rel = set()
                    for n in range(cfg.n):
                        st = cfg.stmt[n]
                        if st is None or cfg.kind[n] not in ("stmt", "test", "loop"):
                            continue
                        for cc in calls_in(own_stmt_part(st, cfg.kind[n])):
                            if callee_name(cc) == "restore_guard" and cc.args and norm(cc.args[0]) == tok:
                                rel.add(n)
                    reach = cfg.reach_avoiding(acq, rel, first_labels=("next", "true", "false", "return"))
                    leaks = [x for x in (cfg.exit, cfg.rexit) if x in reach]
                    if leaks:
                        x = leaks[0]
                        path = " -> ".join(cfg.describe(p) for p in cfg.path_to(acq, x)[:8])
                        rule.violation(where, fi.fq, "%s ... path: %s" % (norm(s), path),
                                       "guard acquired here is not released on %s" % (
                                           "an exceptional exit" if x == cfg.rexit else "a normal exit"),
                                       "%s/%s" % (fi.fq, "exc" if x == cfg.rexit else "normal"))
                    else:
                        rule.ok(where, fi.fq, "%s released by restore_guard(%s) on every path (%d release sites)" % (
                            norm(s), tok, len(rel)))
                elif isinstance(s, ast.Assign) and isinstance(s.targets[0], ast.Attribute) and _cm_release(repo, fi, s.targets[0]) is not None:
                    why = _cm_release(repo, fi, s.targets[0])
                    if why.startswith("ok:"):
                        rule.ok(where, fi.fq, norm(s), why[3:])
                    else:
                        rule.violation(where, fi.fq, norm(s), why, "%s/cm" % fi.fq)
                elif isinstance(s, ast.Assign) and isinstance(s.targets[0], ast.Attribute) and skip_field_tokens:
                    rule.note(where, fi.fq, norm(s), "token kept in an object field (block API): decided under C08")
                elif isinstance(s, ast.Assign) and isinstance(s.targets[0], ast.Attribute):
                    fld = norm(s.targets[0])
                    rule.violation(where, fi.fq, norm(s),
                                   "token stored in object field `%s`: released only by another method, so an exception "
                                   "raised between acquisition and that call leaves guard, error suppression and "
                                   "LinComb.ONE switched" % fld, "%s/field" % fi.fq)
                elif isinstance(s, ast.Expr) and isinstance(s.value, ast.Call) and isinstance(s.value.func, ast.Attribute) \
                        and s.value.func.attr == "append" and len(s.value.args) == 1 and s.value.args[0] is c \
                        and isinstance(s.value.func.value, ast.Attribute) and _cm_release(repo, fi, s.value.func.value, stack=True) is not None:
                    # self.F.append(add_guard(..)) in __enter__, restore_guard(self.F.pop()) in __exit__: a stack of tokens, so
                    # that one manager object can be entered recursively
                    why = _cm_release(repo, fi, s.value.func.value, stack=True)
                    if why.startswith("ok:"):
                        rule.ok(where, fi.fq, norm(s), why[3:])
                    else:
                        rule.violation(where, fi.fq, norm(s), why, "%s/cm" % fi.fq)
                else:
                    rule.violation(where, fi.fq, norm(s), "token returned by add_guard is discarded", "%s/discard" % fi.fq)


def _cm_release(repo, fi, target, stack=False):
    """A token stored in `self.F` by `__enter__` of a class whose `__exit__` releases `self.F` first and on every path,
    the class being used in `with` statements only: the context-manager protocol guarantees the release.
    None: not this shape.  'ok:...' or a violation message."""
    if fi.name != "__enter__" or fi.cls is None or not fi.params:
        return None
    if not (isinstance(target.value, ast.Name) and target.value.id == fi.params[0]):
        return None
    ex = fi.cls.methods.get("__exit__")
    if ex is None or not ex.params:
        return None
    fld = target.attr
    cfg = CFG(ex.node)
    rel = set()
    for n in range(cfg.n):
        st = cfg.stmt[n]
        if st is None or cfg.kind[n] not in ("stmt", "test", "loop"):
            continue
        for cc in calls_in(own_stmt_part(st, cfg.kind[n])):
            if callee_name(cc) == "restore_guard" and cc.args and norm(cc.args[0]) == (
                    "%s.%s.pop()" if stack else "%s.%s") % (ex.params[0], fld):
                rel.add(n)
    if stack:
        # the field is a list created empty by __init__ and touched by nothing but this push and that pop
        others = [x for mi in fi.cls.methods.values() for x in ast.walk(mi.node) if isinstance(x, ast.Attribute) and x.attr == fld]
        init = fi.cls.methods.get("__init__")
        inits = [a for a in (ast.walk(init.node) if init is not None else []) if isinstance(a, ast.Assign) and len(a.targets) == 1
                 and isinstance(a.targets[0], ast.Attribute) and a.targets[0].attr == fld and norm(a.value) in ("[]", "list()")]
        if len(inits) != 1 or len(others) != 3:
            return "the token stack `%s` is not a private list (created empty in __init__, pushed in __enter__, popped in __exit__)" % fld
    if not rel:
        return "__exit__ does not release the token kept in `%s`" % fld
    reach = cfg.reach_avoiding(cfg.entry, rel)
    if cfg.exit in reach or cfg.rexit in reach:
        return "__exit__ can return or raise before the token kept in `%s` is released" % fld
    # the protocol runs __exit__ for every __enter__ it ran; anybody calling __enter__ by hand is outside that guarantee.  When
    # nobody does, other uses of the class (as a decorator through __call__, say) never acquire through __enter__.
    cname = fi.cls.name
    # A single-slot token field is overwritten when the SAME manager object is entered again while active (a recursive guarded
    # function): such a class must be instantiated afresh by every `with C(...)`.  A stack of tokens is re-entrant, so the
    # object may be kept and re-used (as a decorator object, say).
    by_hand = [x for m in repo.modules.values() for x in ast.walk(m.tree) if isinstance(x, ast.Attribute) and x.attr == "__enter__"]
    for m in (list(repo.modules.values()) if (by_hand or not stack) else []):
        withs = {id(it.context_expr.func) for w in ast.walk(m.tree) if isinstance(w, ast.With) for it in w.items
                 if isinstance(it.context_expr, ast.Call)}
        for n in ast.walk(m.tree):
            if isinstance(n, ast.Name) and n.id == cname and isinstance(n.ctx, ast.Load) and id(n) not in withs:
                return "context manager `%s` is also used outside a `with` statement (%s:%d): nothing then guarantees __exit__" % (
                    cname, m.relpath, n.lineno)
    return "ok:context-manager protocol: `with %s(...)` always runs __exit__, which releases self.%s before anything else" % (cname, fld)


def _kind_of(s):
    if isinstance(s, ast.If):
        return "test"
    if isinstance(s, (ast.For, ast.While)):
        return "loop"
    return "stmt"


def _own_statements(fnode):
    stack = list(fnode.body) if isinstance(fnode.body, list) else []
    while stack:
        s = stack.pop()
        yield s
        for fld in ("body", "orelse", "finalbody"):
            for c in getattr(s, fld, []) or []:
                if isinstance(c, ast.stmt) and not isinstance(s, (ast.FunctionDef, ast.ClassDef)):
                    stack.append(c)
        for h in getattr(s, "handlers", []) or []:
            stack.extend(h.body)


def rule_partial(repo, rule):
    ag = repo.fn(RT, "add_guard")
    cfg = CFG(ag.node)
    writes = state_writes(ag.node, declared_globals(ag.node))
    wnodes = [n for n in range(cfg.n) if any(cfg.stmt[n] is w for w, _l, _v in writes)]
    if not wnodes:
        raise AnalysisError("add_guard writes no guard state")
    for w in wnodes:
        reach = cfg.reach_avoiding(w, set(), first_labels=("next", "true", "false"))
        bad = [x for x in sorted(reach) if cfg.stmt[x] is not None and cfg.kind[x] in ("stmt", "test", "loop")
               and fine_may_raise(cfg.stmt[x], cfg.kind[x])
               and any(lab == "exc" for _b, lab in cfg.succ[x])]
        where = ag.loc(cfg.stmt[w])
        if bad:
            rule.violation(where, ag.fq, "%s ... then %s" % (norm(cfg.stmt[w]), cfg.describe(bad[0])),
                           "a statement that can raise follows a write to guard state: a failed acquisition leaves "
                           "the guard half-installed", "add_guard/%s" % norm(cfg.stmt[w].targets[0] if isinstance(
                               cfg.stmt[w], ast.Assign) else cfg.stmt[w]))
        else:
            rule.ok(where, ag.fq, "nothing after `%s` can raise" % norm(cfg.stmt[w]))


def rule_release_first(repo, rule):
    bc = repo.cls("pysnark.branching", "BranchContext")
    ex = bc.methods.get("exit")
    if ex is None:
        raise AnalysisError("BranchContext.exit not found")
    cfg = CFG(ex.node)
    dom = cfg.dominators()
    rel = [n for n in range(cfg.n) if cfg.stmt[n] is not None and cfg.kind[n] == "stmt" and any(
        callee_name(c) == "restore_guard" for c in calls_in(cfg.stmt[n]))]
    if not rel:
        rule.violation(ex.loc(), ex.fq, "no restore_guard call", "BranchContext.exit never releases the guard", "exit/none")
    else:
        r = rel[0]
        bad = [n for n in range(cfg.n) if cfg.stmt[n] is not None and n != r and cfg.kind[n] in ("stmt", "test", "loop")
               and fine_may_raise(cfg.stmt[n], cfg.kind[n]) and r not in dom[n]]
        if bad:
            rule.violation(ex.loc(cfg.stmt[bad[0]]), ex.fq, cfg.describe(bad[0]),
                           "can raise before the guard is released", "exit/order")
        else:
            rule.ok(ex.loc(cfg.stmt[r]), ex.fq, "restore_guard dominates every statement that can raise")
    # acquisition is the last fallible step of enter(): if anything after add_guard raised, the caller would never get a
    # context object to exit() and the guard would stay installed
    en = bc.methods.get("enter")
    if en is not None:
        cfg_e = CFG(en.node)
        acq = [n for n in range(cfg_e.n) if cfg_e.stmt[n] is not None and cfg_e.kind[n] == "stmt" and any(
            callee_name(c) == "add_guard" for c in calls_in(cfg_e.stmt[n]))]
        if acq:
            a = acq[0]
            after = cfg_e.reach_avoiding(a, set(), first_labels=("next", "true", "false"))
            bad = [n for n in sorted(after) if n != a and cfg_e.stmt[n] is not None and cfg_e.kind[n] in ("stmt", "test", "loop")
                   and fine_may_raise(cfg_e.stmt[n], cfg_e.kind[n])]
            if bad:
                rule.violation(en.loc(cfg_e.stmt[bad[0]]), en.fq, "%s ... then %s" % (norm(cfg_e.stmt[a]), cfg_e.describe(bad[0])),
                               "a statement that can raise follows add_guard inside enter(): if it raises, the branch context is never "
                               "registered, nobody calls exit(), and guard / error suppression / LinComb.ONE stay switched",
                               "enter/acquire-last")
            else:
                rule.ok(en.loc(cfg_e.stmt[a]), en.fq, "add_guard is the last statement of enter() that can raise")
    # protocol order exit() before enter()
    for ci in repo.module("pysnark.branching").classes.values():
        for mn, fi in ci.methods.items():
            if mn in ("enter", "exit", "__init__"):
                continue
            calls = []
            for s in _own_statements(fi.node):
                for c in calls_in(own_stmt_part(s, _kind_of(s))):
                    nm = callee_name(c)
                    if nm in ("enter", "exit") and isinstance(c.func, ast.Attribute) and norm(c.func.value) in ("self", "super()"):
                        calls.append((c.lineno, c.col_offset, nm, s))
            calls.sort()
            names = [c[2] for c in calls]
            if "enter" in names:
                cfg2 = CFG(fi.node)
                dom2 = cfg2.dominators()
                en = [n for n in range(cfg2.n) if cfg2.stmt[n] is not None and any(cfg2.stmt[n] is c[3] and c[2] == "enter" for c in calls)]
                exn = [n for n in range(cfg2.n) if cfg2.stmt[n] is not None and any(cfg2.stmt[n] is c[3] and c[2] == "exit" for c in calls)]
                ok = bool(exn) and all(any(x in dom2[e] and x != e for x in exn) for e in en)
                if ok:
                    rule.ok(fi.loc(), fi.fq, "exit() dominates enter()")
                else:
                    rule.violation(fi.loc(), fi.fq, "calls: %s" % names,
                                   "re-enters a guard without leaving the previous one first", "%s/order" % fi.fq)


def rule_conjunction(repo, rule):
    ag = repo.fn(RT, "add_guard")
    cond = ag.params[0]
    writes = state_writes(ag.node, declared_globals(ag.node))
    by = {}
    for s, loc, v in writes:
        by.setdefault(loc, []).append((s, v))
    # guard
    for s, v in by.get("guard", []):
        where = ag.loc(s)
        # the value written, decided scenario by scenario (whatever mixture of conditional expressions, statement-level ifs and
        # named intermediates spells it):   no enclosing guard -> the condition itself;  enclosing guard g, condition is another
        # wire -> g & cond;  condition IS the enclosing guard (same object) -> g, cond or g & g
        from ..hints import paths_to as _pt8
        from ..flatten import resolve_locals as _rl8

        def _atom(t):
            tt = norm(t).replace(" ", "")
            pairs = {"guardisNone": ("none", True), "guard==None": ("none", True), "guardisnotNone": ("none", False), "guard!=None": ("none", False),
                     "%sisguard" % cond: ("same", True), "guardis%s" % cond: ("same", True),
                     "%sisnotguard" % cond: ("same", False), "guardisnot%s" % cond: ("same", False)}
            return pairs.get(tt)

        def _pe(t, facts):
            if isinstance(t, ast.UnaryOp) and isinstance(t.op, ast.Not):
                r = _pe(t.operand, facts)
                return None if r is None else not r
            if isinstance(t, ast.BoolOp):
                rs = [_pe(x, facts) for x in t.values]
                if isinstance(t.op, ast.And):
                    return False if any(r is False for r in rs) else (True if all(r is True for r in rs) else None)
                return True if any(r is True for r in rs) else (False if all(r is False for r in rs) else None)
            a = _atom(t)
            if a is not None and a[0] in facts:
                return facts[a[0]] == a[1]
            return None

        def _fold(e, facts):
            if isinstance(e, ast.IfExp):
                r = _pe(e.test, facts)
                if r is True:
                    return _fold(e.body, facts)
                if r is False:
                    return _fold(e.orelse, facts)
            return e
        vres = _rl8(ag.node, v, keep={cond})
        scen = (("no enclosing guard", {"none": True, "same": False}, (cond,)),
                ("nested in g, another condition", {"none": False, "same": False}, ("guard & %s" % cond, "%s & guard" % cond)),
                ("nested in g, the condition is g itself", {"none": False, "same": True},
                 ("guard", cond, "guard & %s" % cond, "%s & guard" % cond, "guard & guard")))
        def _is_product_conjunction(e):
            """the conjunction of two bits as their product: `guard * cond` (a wire product, tied by LinComb.__mul__), or a fresh
            witness hinted with guard.value * cond.value that some emission of add_guard ties as guard * cond = <that wire>"""
            from ..poly import poly_of as _po
            if norm(e) in ("guard * %s" % cond, "%s * guard" % cond):
                return True
            if isinstance(e, ast.Call) and norm(e.func).split(".")[-1] in ("PrivVal", "PrivValBool") and len(e.args) == 1:
                G, C = P.sym("g"), P.sym("c")
                hp = _po(e.args[0], {"guard.value": G, "%s.value" % cond: C}, strict=True)
                if hp is None or hp != G * C:
                    return False
                holders = {a.targets[0].id for a in ast.walk(ag.node) if isinstance(a, ast.Assign) and len(a.targets) == 1
                           and isinstance(a.targets[0], ast.Name) and a.value is e}
                if isinstance(v, ast.Name):
                    holders.add(v.id)
                for c_ in ast.walk(ag.node):
                    if isinstance(c_, ast.Call) and norm(c_.func).split(".")[-1] in ("add_constraint", "add_constraint_unsafe") and len(c_.args) >= 3:
                        env_ = {"guard": G, cond: C}
                        for h_ in holders:
                            env_[h_] = P.sym("n")
                        ps = [_po(x, env_, strict=True) for x in c_.args[:3]]
                        if None not in ps and ps[0] * ps[1] - ps[2] == G * C - P.sym("n"):
                            return True
            return False
        def _public_zero(pth_):
            """the path of a PUBLIC condition that is 0 / False: the region is dead for every witness"""
            zero = any(norm(t_).replace(" ", "") in ("%s==0" % cond, "0==%s" % cond, "%s==False" % cond, "not%s" % cond) and pol_ for t_, pol_ in pth_.conds)
            wire = any(norm(t_).replace(" ", "") in ("isinstance(%s,LinComb)" % cond,) and pol_ for t_, pol_ in pth_.conds)
            return zero and not wire
        sem_ok, sem_why, seen_any = True, "", False
        for pth in _pt8(ag.node, s) or []:
            if _public_zero(pth):
                seen_any = True
                if norm(vres) not in ("LinComb.ZERO", "ConstVal(0)", "runtime.LinComb.ZERO"):
                    sem_ok, sem_why = False, "public condition 0: the new guard is `%s`, expected the constant zero wire" % norm(vres)
                continue
            for label, facts, allowed in scen:
                if any(_pe(t_, facts) is not None and _pe(t_, facts) != pol_ for t_, pol_ in pth.conds):
                    continue          # this path is not taken in this scenario
                seen_any = True
                gotn = _fold(vres, facts)
                got = norm(gotn)
                if got not in allowed and not (facts["none"] is False and _is_product_conjunction(gotn)):
                    sem_ok, sem_why = False, "%s: the new guard is `%s`, expected %s" % (label, got, " or ".join("`%s`" % a for a in allowed))
        if seen_any and sem_ok:
            rule.ok(where, ag.fq, "guard <- %s" % norm(vres)[:100], "the condition alone / conjunction with the enclosing guard / the guard itself when the condition is that guard")
            continue
        if seen_any and not sem_ok and not any(isinstance(x, ast.IfExp) for x in ast.walk(vres)) and False:
            pass
        cases = _cases(s, v, ag.node)
        ok = True
        why = ""
        for test, expr in cases:
            e = norm(expr)
            if test == "none":
                if e != cond:
                    ok, why = False, "with no enclosing guard the new guard must be the condition itself, got `%s`" % e
            elif test == "some":
                if e not in ("guard & %s" % cond, "%s & guard" % cond):
                    ok, why = False, "nested guard must be `guard & %s`, got `%s`" % (cond, e)
            else:
                if e not in ("guard & %s" % cond, "%s & guard" % cond):
                    ok, why = False, "guard written as `%s` without a `guard is None` case split" % e
        if ok and cases:
            rule.ok(where, ag.fq, "guard <- " + "; ".join("%s: %s" % (t, norm(e)) for t, e in cases))
        else:
            rule.violation(where, ag.fq, norm(s), (sem_why if seen_any else "") or why or "unrecognised write to guard", "conj/guard")
    if "guard" not in by:
        rule.violation(ag.loc(), ag.fq, "no write to guard", "add_guard never installs the guard", "conj/none")
    for s, v in by.get("_ignore_errors", []):
        ok = isinstance(v, ast.BoolOp) and isinstance(v.op, ast.Or) and any(norm(x) == "_ignore_errors" for x in v.values) \
            and any(_is_zero_test(x, cond) for x in v.values)
        if not ok and norm(v) == "True":
            # a region opened with the public condition 0 is dead for every witness: suppression is simply on
            from ..hints import paths_to as _pt8b
            pz = _pt8b(ag.node, s) or []
            ok = bool(pz) and all(any(norm(t_).replace(" ", "") in ("%s==0" % cond, "0==%s" % cond, "not%s" % cond) and pol_ for t_, pol_ in p_.conds)
                                  for p_ in pz)
            if ok:
                # ... and then the guard wire must be the zero wire whenever this statement runs (suppressed checks are only safe
                # behind a guard that is 0): a write `guard = <zero wire>` governed by no test beyond those governing this one
                def _gov(st_):
                    out_ = set()
                    ch_ = st_
                    for p_ in parents(st_):
                        if isinstance(p_, ast.If):
                            out_.add((id(p_), any(ch_ is b_ for b_ in p_.body)))
                        if isinstance(p_, (ast.FunctionDef, ast.AsyncFunctionDef)):
                            break
                        ch_ = p_
                    return out_
                zero_writes = [s2 for s2, v2 in by.get("guard", []) if norm(v2) in ("LinComb.ZERO", "ConstVal(0)", "runtime.LinComb.ZERO",
                                                                                    "guard * 0", "0 * guard")]
                if not any(_gov(s2) <= _gov(s) for s2 in zero_writes):
                    rule.violation(ag.loc(s), ag.fq, norm(s),
                                   "a public condition 0 switches error suppression on, but the guard becomes the zero wire only under a "
                                   "further test (%s): nested in a region that is taken the guard wire stays 1 while run-time checks are off"
                                   % "; ".join(sorted({norm(p_.test) for s2 in zero_writes for p_ in parents(s2) if isinstance(p_, ast.If)
                                                       and (id(p_), True) not in _gov(s) and (id(p_), False) not in _gov(s)}))[:80],
                                   "conj/ignore-public-zero")
                    continue
        if ok:
            rule.ok(ag.loc(s), ag.fq, norm(s), "suppression is or-ed with `%s.value == 0`" % cond)
        else:
            rule.violation(ag.loc(s), ag.fq, norm(s),
                           "error suppression must be `_ignore_errors or %s.value == 0` (sticky, only or-ed)" % cond,
                           "conj/ignore")
    if not by.get("_ignore_errors"):
        # add_guard does not switch suppression on: then it must be DERIVED from the guard - ignore_errors() answers
        # `<user flag> or not is_guard()` (or an equivalent disjunction) on every return
        ie = repo.module(RT).functions.get("ignore_errors")
        rets_ = [r_ for r_ in ast.walk(ie.node) if isinstance(r_, ast.Return) and r_.value is not None] if ie is not None else []

        def _derived(e):
            vals = e.values if isinstance(e, ast.BoolOp) and isinstance(e.op, ast.Or) else [e]
            return any(norm(v_).replace(" ", "") in ("notis_guard()", "not(guardisNoneorguard.value==1)", "guardisnotNoneandguard.value!=1",
                                                    "guardisnotNoneandguard.value==0") for v_ in vals) and any(norm(v_) == "_ignore_errors" for v_ in vals)
        if rets_ and all(_derived(r_.value) for r_ in rets_):
            rule.ok(ie.loc(rets_[0]), ie.fq, norm(rets_[0]), "suppression is derived: the user's flag or-ed with 'the active guard is not 1'")
        else:
            rule.violation(ag.loc(), ag.fq, "no write to _ignore_errors; ignore_errors() returns %s" % [norm(r_.value) for r_ in rets_][:2],
                           "entering a region whose guard is 0 does not switch error suppression on (neither stored by add_guard "
                           "nor derived by ignore_errors())", "conj/ignore")
    for s, v in by.get("LinComb.ONE", []):
        if norm(v) == "guard":
            rule.ok(ag.loc(s), ag.fq, norm(s), "constants are scaled by the new (conjoined) guard")
        else:
            rule.violation(ag.loc(s), ag.fq, norm(s), "LinComb.ONE must become the new conjoined guard, not `%s`" % norm(v),
                           "conj/one")


def _is_zero_test(x, cond):
    t = norm(x)
    return t in ("%s.value == 0" % cond, "0 == %s.value" % cond, "not %s.value" % cond, "%s.value != 1" % cond)


def _cases(stmt, v, fnode):
    """[(case, expr)] with case in none/some/any for a write of `guard`."""
    def is_none_test(t):
        tt = norm(t)
        if tt in ("guard is None", "guard == None", "not guard is not None"):
            return True
        if tt in ("guard is not None", "not guard is None", "guard != None"):
            return False
        return None
    if isinstance(v, ast.IfExp):
        k = is_none_test(v.test)
        if k is True:
            return [("none", v.body), ("some", v.orelse)]
        if k is False:
            return [("some", v.body), ("none", v.orelse)]
    # statement-level if
    p = getattr(stmt, "_parent", None)
    if isinstance(p, ast.If):
        k = is_none_test(p.test)
        if k is not None:
            in_body = stmt in p.body
            return [("none" if (k == in_body) else "some", v)]
    return [("any", v)]


ALLOWED_WRITERS = {
    "guard": {"pysnark.runtime:add_guard", "pysnark.runtime:restore_guard"},
    "_ignore_errors": {"pysnark.runtime:add_guard", "pysnark.runtime:restore_guard", "pysnark.runtime:ignore_errors"},
    "LinComb.ONE": {"pysnark.runtime:add_guard", "pysnark.runtime:restore_guard"},
}


def rule_census(repo, rule, include_clients=False):
    mods = list(repo.modules.values()) + (list(repo.clients.values()) if include_clients else [])
    for m in mods:
        for fi in m.functions.values():
            if isinstance(fi.node, ast.Lambda):
                continue
            gl = declared_globals(fi.node) if m.name == RT else set()
            for s, loc, v in state_writes(fi.node, gl):
                # only this function's own statements
                owner = s
                skip = False
                while getattr(owner, "_parent", None) is not None:
                    owner = owner._parent
                    if isinstance(owner, (ast.FunctionDef, ast.AsyncFunctionDef, ast.Lambda)):
                        skip = owner is not fi.node
                        break
                if skip:
                    continue
                if fi.fq in ALLOWED_WRITERS[loc]:
                    rule.ok(fi.loc(s), fi.fq, norm(s))
                else:
                    rule.violation(fi.loc(s), fi.fq, norm(s),
                                   "`%s` is guard state: only add_guard/restore_guard may write it" % loc,
                                   "%s/%s" % (fi.fq, loc))


def guard_discipline(repo, rule):
    """The guard-state rules as shared instances for properties whose premise is that guard state (active guard,
    error suppression, meaning of constants) is exactly what the enclosing regions say: restore symmetry, release on
    every exit of guarded(), no partial acquisition, conjunction / or-ed suppression.  (The block API's field-stored
    token is decided under C08 only.)"""
    rule_symmetry(repo, rule)
    rule_release(repo, rule, skip_field_tokens=True)
    rule_partial(repo, rule)
    rule_conjunction(repo, rule)


def check(repo, rep, tier):
    rep.explanation = (
        "Pairing/typestate rules on statement CFGs (with exceptional edges) of add_guard, restore_guard, every "
        "function that calls add_guard, and the branch-context classes; plus a package-wide census of stores "
        "to guard state.")
    rep.trusted = ["statement CFG of sa/cfg.py (exception edge from every statement that can raise; finally bodies "
                   "instantiated per exit kind)"]
    rep.not_decided = ["client code outside /repo closing its blocks"]
    r1 = rep.rule("R-C08-1", "save/restore symmetry of guard state (add_guard / restore_guard)", floor=4)
    rule_symmetry(repo, r1)
    r2 = rep.rule("R-C08-2", "every add_guard is released on every exit path", floor=2)
    rule_release(repo, r2, include_clients=(tier == "thorough"))
    r3 = rep.rule("R-C08-3", "no partial acquisition in add_guard", floor=2)
    rule_partial(repo, r3)
    r4 = rep.rule("R-C08-4", "BranchContext releases first; exit() before enter()", floor=3)
    rule_release_first(repo, r4)
    r5 = rep.rule("R-C08-5", "nesting is a conjunction; suppression only or-ed; ONE is the new guard", floor=3)
    rule_conjunction(repo, r5)
    r7 = rep.rule("R-C08-7", "nothing computed from the guard (LinComb.ONE, constants) is kept beyond the region: emission is memoryless", floor=4)
    from .memoryless import rule_memoryless
    rule_memoryless(repo, r7)
    r6 = rep.rule("R-C08-6", "only add_guard/restore_guard/ignore_errors write guard state", floor=6)
    rule_census(repo, r6, include_clients=(tier == "thorough"))
