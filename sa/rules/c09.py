"""C09 - oblivious if/elif/else/while/for (structural clauses; equivalence with native control flow for all
programs and inputs is a differential-execution property and is not claimed).

R-C09-1  kind contracts along the branch protocol are satisfiable (contradiction rule): the value handed to
         add_guard on entry and to if_then_else on exit must have a kind both accept; call arities match
R-C09-2  merge covers every tracked variable, new value in the true position, backup taken before the guard
R-C09-3  condition algebra of elif / else / while / break
R-C09-5  guard discipline of lazily evaluated and nested branches (shared instances of C08's rules)
R-C09-4  loops and merges are oblivious (C06 rules over branching.py)
"""
import ast

from ..efftree import always_raises
from ..kinds import V
from ..loader import norm, AnalysisError, parents
from .c06 import get_interp, eval_tainted_alts, eval_tainted_loops, count_public_loops

BR = "pysnark.branching"
SECRET_KINDS = ("LC", "LCB")
KNAME = {"LC": "LinComb", "LCB": "LinCombBool", "int": "int"}


def accepts(it, fi, kind, rest):
    tree, _ret = it.analyze(fi, [V(kind)] + rest, {}, None, None)
    return not always_raises(tree)


def rule_contracts(repo, rule):
    it = get_interp(repo)
    ag = repo.fn("pysnark.runtime", "add_guard")
    ite = repo.fn(BR, "if_then_else")
    acc_guard = {k for k in SECRET_KINDS if accepts(it, ag, k, [])}
    acc_sel = {k for k in SECRET_KINDS if accepts(it, ite, k, [V("LC"), V("int")])}
    bc = repo.cls(BR, "BranchContext")
    enter, exit_ = bc.methods.get("enter"), bc.methods.get("exit")
    if enter is None or exit_ is None:
        raise AnalysisError("BranchContext.enter/exit not found")
    p = enter.params[1]
    guard_calls = [c for c in ast.walk(enter.node) if isinstance(c, ast.Call) and norm(c.func) == "add_guard" and c.args and norm(c.args[0]) == p]
    stores = [a for a in ast.walk(enter.node) if isinstance(a, ast.Assign) and norm(a.value) == p and norm(a.targets[0]).startswith("self.")]
    fld = norm(stores[0].targets[0]) if stores else None
    sel_calls = [c for c in ast.walk(exit_.node) if isinstance(c, ast.Call) and norm(c.func) == "if_then_else" and c.args and norm(c.args[0]) == fld]
    where = enter.loc()
    term = "condition -> add_guard (accepts %s) on entry and -> if_then_else (accepts %s) on exit" % (
        sorted(KNAME[k] for k in acc_guard), sorted(KNAME[k] for k in acc_sel))
    if not guard_calls or not sel_calls:
        rule.undecided(where, bc.fq, term, "protocol not in the enter/add_guard - exit/if_then_else shape")
    elif acc_guard & acc_sel:
        rule.ok(where, bc.fq, term, "a secret condition of kind %s passes both" % sorted(KNAME[k] for k in acc_guard & acc_sel))
    else:
        rule.violation(where, bc.fq, term,
                       "no secret condition satisfies both contracts: a comparison-typed (LinCombBool) condition raises TypeError in "
                       "add_guard on entry, a wire-typed (LinComb) one raises RuntimeError in if_then_else as soon as a variable was "
                       "written - the block API cannot run on secret conditions", "contract/BranchContext")
    # IfContext: the complement it computes
    ic = repo.cls(BR, "IfContext")
    init = ic.methods.get("__init__")
    if init is not None:
        c_ = init.params[1]
        comp = [a for a in ast.walk(init.node) if isinstance(a, ast.Assign) and norm(a.targets[0]) == "self.icond"]
        if comp:
            kinds = set()
            from ..absint import Frame
            for k in SECRET_KINDS:
                fr = Frame(init, {c_: V(k), "self": V("obj")}, init.module, ("c09", k), True)
                _t, v = it.eval(comp[0].value, fr)
                kinds |= set(v.kind)
            term2 = "self.icond = %s has kind %s for secret conditions; if_then_else accepts %s" % (
                norm(comp[0].value), sorted(kinds), sorted(KNAME[k] for k in acc_sel))
            if kinds & acc_sel & acc_guard:
                rule.ok(init.loc(comp[0]), init.fq, term2)
            else:
                rule.violation(init.loc(comp[0]), init.fq, term2, "the negated condition used for elif/else is never of a kind that both "
                               "add_guard and if_then_else accept", "contract/IfContext.icond")
    # arities of method calls on known-kind receivers inside the branching module
    m = repo.module(BR)
    n_ar = 0
    for fi in m.functions.values():
        if isinstance(fi.node, ast.Lambda):
            continue
        for (node, fv, args, kwargs, base, conds) in it.call_records.get(fi.fq, []):
            from ..kinds import Closure, KIND_CLASS
            if fv.fn is not None and not isinstance(fv.fn, Closure) and fv.fn[0] == "method?" and isinstance(node.func, ast.Attribute):
                mname, recv = fv.fn[1], fv.fn[2]
                for k in sorted(recv.kind):
                    if k not in ("LC", "LCB", "LCF"):
                        continue
                    ci_ = it.class_for_kind(k)
                    callee = repo.lookup_method(ci_, mname) if ci_ else None
                    if callee is None:
                        continue
                    n_ar += 1
                    maxpos = len(callee.params) - 1
                    if callee.node.args.vararg is None and len(node.args) > maxpos:
                        rule.violation(fi.loc(node), fi.fq, "%s: when the receiver is a %s, %s takes %d argument(s), %d given" % (
                            norm(node)[:70], KNAME.get(k, k), callee.fq, maxpos, len(node.args)),
                            "this call raises TypeError whenever the receiver is a %s (which the operands' kinds make possible)" % KNAME.get(k, k),
                            "arity/%s/%s" % (fi.fq, callee.qual))
                    else:
                        rule.ok(fi.loc(node), fi.fq, "%s -> %s (receiver %s)" % (norm(node)[:50], callee.fq, k))
            if isinstance(fv.fn, Closure) and fv.fn.bound_self is not None and isinstance(node.func, ast.Attribute):
                callee = fv.fn.fi
                if callee.module.name.startswith("pysnark.") and callee.cls is not None and callee.cls.name in ("LinComb", "LinCombBool", "LinCombFxp"):
                    n_ar += 1
                    maxpos = len(callee.params) - 1
                    if callee.node.args.vararg is None and len(node.args) > maxpos:
                        rule.violation(fi.loc(node), fi.fq, "%s -> %s takes %d argument(s), %d given" % (norm(node)[:70], callee.fq, maxpos, len(node.args)),
                                       "call raises TypeError whenever it is reached", "arity/%s/%s" % (fi.fq, callee.qual))
                    else:
                        rule.ok(fi.loc(node), fi.fq, "%s -> %s" % (norm(node)[:60], callee.fq))
    return acc_guard, acc_sel


def rule_merge(repo, rule):
    bc = repo.cls(BR, "BranchContext")
    exit_, enter = bc.methods["exit"], bc.methods["enter"]
    sels = [c for c in ast.walk(exit_.node) if isinstance(c, ast.Call) and norm(c.func) == "if_then_else" and len(c.args) == 3]
    if len(sels) < 2:
        rule.violation(exit_.loc(), exit_.fq, "%d selections" % len(sels), "exit does not merge both defined and newly defined variables",
                       "merge/count")
    from ..seqs import resolve_at as _ra9
    from ..flatten import resolve_locals as _rl9

    # local aliases of the dictionaries (`live = self.ctx.vals`): the same object under another name, also where it is updated
    from ..flatten import _Subst as _S9
    from ..loader import clone as _cl9
    _st = {}
    for x_ in ast.walk(exit_.node):
        if isinstance(x_, ast.Name) and not isinstance(x_.ctx, ast.Load):
            _st[x_.id] = _st.get(x_.id, 0) + 1
    aliases = {a_.targets[0].id: a_.value for a_ in ast.walk(exit_.node) if isinstance(a_, ast.Assign) and len(a_.targets) == 1
               and isinstance(a_.targets[0], ast.Name) and _st.get(a_.targets[0].id) == 1 and isinstance(a_.value, ast.Attribute)
               and norm(a_.value).startswith("self.")}

    def _res(node_, e_):
        """expression at node_ in terms of the key __k0 of the dict the enclosing loop walks (aliases of the dicts resolved)"""
        r_, lps_ = _ra9(exit_.node, node_, e_)
        r_ = _rl9(exit_.node, _S9(aliases).visit(_cl9(r_)) if aliases else r_)
        base_ = lps_[0][1].base if lps_ and lps_[0][1] is not None else None
        if base_ is not None:
            try:
                b0_ = ast.parse(base_, mode="eval").body
                base_ = norm(_rl9(exit_.node, _S9(aliases).visit(b0_) if aliases else b0_))
            except SyntaxError:
                pass
        return norm(r_).replace("__e0", "__k0"), base_
    for c in sels:
        tgt = getattr(c, "_parent", None)
        if isinstance(tgt, ast.Assign) and isinstance(tgt.targets[0], ast.Subscript) and [p for p in parents(c) if isinstance(p, ast.For)]:
            ra = [_res(c, x) for x in c.args]
            tt_, base_ = _res(c, tgt.targets[0])
            a_ = [x[0] for x in ra]
            term = "over %s: %s = if_then_else(%s)" % (base_, tt_, ", ".join(a_))
            good = a_[0] == "self.cond" and a_[1] == "self.ctx.vals[__k0]" and a_[2] in ("self.bak[__k0]", "self.nodefvals[__k0]") \
                and tt_ in ("self.ctx.vals[__k0]", "self.nodefvals[__k0]") and base_ in ("self.ctx.vals", "self.nodefvals") \
                and (a_[2] == "self.nodefvals[__k0]") == (tt_ == "self.nodefvals[__k0]")
            if good:
                rule.ok(exit_.loc(c), exit_.fq, term, "branch value selected when the condition holds, previous value otherwise")
            else:
                rule.violation(exit_.loc(c), exit_.fq, term, "merge is not select(cond, value written in the branch, value before the branch) "
                               "for the same variable", "merge/%s" % (base_ or "?"))
            continue
        a = [norm(x) for x in c.args]
        loops = [p for p in parents(c) if isinstance(p, ast.For)]
        nm = norm(loops[0].target) if loops else None
        over = norm(loops[0].iter) if loops else None
        if loops and isinstance(loops[0].target, ast.Tuple) and len(loops[0].target.elts) == 2 and over.endswith(".items()") \
                and all(isinstance(e, ast.Name) for e in loops[0].target.elts):
            # for (k, v) in X.items():  v is X[k]
            nm, vname = (e.id for e in loops[0].target.elts)
            over = over[:-8]
            a = ["%s[%s]" % (over, nm) if x == vname else x for x in a]
        new_ok = a[1] == "self.ctx.vals[%s]" % nm
        old_ok = a[2] in ("self.bak[%s]" % nm, "self.nodefvals[%s]" % nm)
        cond_ok = a[0] == "self.cond"
        if over:
            import re as _re
            mm = _re.match(r"^(?:list|tuple|sorted)\((.*)\)$", over)
            if mm:
                over = mm.group(1)
            if over.endswith(".keys()"):
                over = over[:-7]
        tgt = getattr(c, "_parent", None)
        tgt_ok = isinstance(tgt, ast.Assign) and norm(tgt.targets[0]) in ("self.ctx.vals[%s]" % nm, "self.nodefvals[%s]" % nm)
        term = "for %s in %s: %s" % (nm, over, norm(tgt) if tgt is not None else norm(c))
        if new_ok and old_ok and cond_ok and tgt_ok and over in ("self.ctx.vals", "self.nodefvals"):
            rule.ok(exit_.loc(c), exit_.fq, term, "branch value selected when the condition holds, previous value otherwise")
        else:
            rule.violation(exit_.loc(c), exit_.fq, term, "merge is not select(cond, value written in the branch, value before the branch) "
                           "for the same variable", "merge/%s" % (over or "?"))
    # spurious / missing variables raise
    raises = [n for n in ast.walk(exit_.node) if isinstance(n, ast.Raise)]
    if len(raises) >= 2:
        rule.ok(exit_.loc(raises[0]), exit_.fq, "%d consistency raises (value not set in a later branch / spurious value)" % len(raises))
    else:
        rule.violation(exit_.loc(), exit_.fq, "%d raises" % len(raises), "inconsistent variable sets between branches are not reported",
                       "merge/raises")
    # backup before the guard
    body = enter.node.body
    bi = [i for i, s in enumerate(body) if isinstance(s, ast.Assign) and norm(s.targets[0]) == "self.bak" and "backup()" in norm(s.value)]
    gi = [i for i, s in enumerate(body) if "add_guard(" in norm(s)]
    if bi and gi and bi[0] < gi[0]:
        rule.ok(enter.loc(body[bi[0]]), enter.fq, "self.bak = ...backup() before add_guard")
    else:
        rule.violation(enter.loc(), enter.fq, norm(body)[:120], "variables are not backed up before the branch starts", "merge/backup")
    bv = repo.cls(BR, "BranchingValues").methods.get("backup")
    def _copies_all(fn):
        """for k, v in self.vals.items(): D[k] = deepcopy(v) ... return D   (any names)"""
        for lp in ast.walk(fn):
            if isinstance(lp, ast.For) and norm(lp.iter) in ("self.vals.items()", "list(self.vals.items())") and isinstance(lp.target, ast.Tuple) \
                    and len(lp.target.elts) == 2 and all(isinstance(t, ast.Name) for t in lp.target.elts):
                k_, v_ = lp.target.elts[0].id, lp.target.elts[1].id
                for st in lp.body:
                    if isinstance(st, ast.Assign) and isinstance(st.targets[0], ast.Subscript) and norm(st.targets[0].slice) == k_ \
                            and isinstance(st.value, ast.Call) and norm(st.value.func).endswith("deepcopy") and [norm(a) for a in st.value.args] == [v_]:
                        d_ = norm(st.targets[0].value)
                        if any(isinstance(r, ast.Return) and r.value is not None and norm(r.value) == d_ for r in ast.walk(fn)):
                            return True
            if isinstance(lp, ast.DictComp) and len(lp.generators) == 1 and norm(lp.generators[0].iter) == "self.vals.items()" \
                    and isinstance(lp.value, ast.Call) and norm(lp.value.func).endswith("deepcopy") and not lp.generators[0].ifs:
                return True
        return False
    if bv is not None and _copies_all(bv.node):
        rule.ok(bv.loc(), bv.fq, "backup copies every tracked variable")
    else:
        rule.violation(bv.loc() if bv else BR, BR + ":BranchingValues.backup", "", "backup does not cover every tracked variable", "merge/backup-all")


def _protocol_events(fi, state_attrs):
    """Straight-line simulation of a branch-protocol method (after helper inlining): events in execution order
       ("exit", i) | ("call", name, i) | ("enter", poly, i) | ("store", attr, poly-or-"None", i_store, i_computed)
    Boolean-gate polynomials over the symbols of `state_attrs` (self.icond -> I ...) and of evaluated condition callables
    (a parameter p called as p() -> symbol C:p).  i_computed = index of the statement that evaluated the stored expression."""
    from .c02 import _gate_poly
    from ..poly import P
    env = {a: P.sym(sym) for a, sym in state_attrs.items()}      # text -> poly
    born = {}                                                    # local name -> statement index where its value was computed
    ev = []
    params = set(fi.params[1:])

    def val(e, i):
        if isinstance(e, ast.Constant) and e.value is None:
            return "None", i
        if isinstance(e, ast.Name) and e.id in born and e.id in env:
            return env[e.id], born[e.id]
        if isinstance(e, ast.Call) and isinstance(e.func, ast.Name) and e.func.id in params and not e.args:
            ev.append(("call", e.func.id, i))
            return P.sym("C:" + e.func.id), i
        class _E(dict):
            pass
        e2 = dict(env)
        p = _gate_poly_text(e, e2)
        return p, i

    def _gate_poly_text(e, e2):
        # _gate_poly with attribute texts (self.icond) as symbols
        t = norm(e)
        if t in e2:
            return e2[t]
        if isinstance(e, ast.BinOp):
            l, r = _gate_poly_text(e.left, e2), _gate_poly_text(e.right, e2)
            if l is None or r is None:
                return None
            if isinstance(e.op, ast.BitAnd) or isinstance(e.op, ast.Mult):
                return l * r
            if isinstance(e.op, ast.Sub):
                return l - r
            if isinstance(e.op, ast.Add):
                return l + r
            if isinstance(e.op, ast.BitOr):
                return l + r - l * r
            return None
        if isinstance(e, ast.UnaryOp) and isinstance(e.op, ast.Invert):
            v = _gate_poly_text(e.operand, e2)
            return None if v is None else P.const(1) - v
        if isinstance(e, ast.Constant) and isinstance(e.value, int):
            return P.const(e.value)
        return None
    for i, s in enumerate(fi.node.body):
        if isinstance(s, ast.Expr) and isinstance(s.value, ast.Call):
            f = norm(s.value.func)
            if f in ("self.exit", "super().exit"):
                ev.append(("exit", i))
            elif f in ("self.enter", "super().enter") and s.value.args:
                p, _b = val(s.value.args[0], i)
                ev.append(("enter", p, i))
        elif isinstance(s, ast.Assign) and len(s.targets) == 1:
            t = s.targets[0]
            p, b = val(s.value, i)
            if isinstance(t, ast.Name):
                if p is not None:
                    env[t.id] = p
                    born[t.id] = b
                else:
                    env.pop(t.id, None)
            elif isinstance(t, ast.Attribute) and norm(t) in state_attrs:
                ev.append(("store", norm(t), p, i, b))
    return ev


def rule_algebra(repo, rule):
    ic = repo.cls(BR, "IfContext")
    wc = repo.cls(BR, "WhileContext")
    el = ic.methods["_elif"]
    from ..poly import P
    I, nwp = P.sym("I"), el.params[1]
    C = P.sym("C:" + nwp)
    ev = _protocol_events(el, {"self.icond": "I"})
    kinds = [e[0] for e in ev]
    desc = "; ".join("%s%s" % (e[0], "(%s)" % e[1] if e[0] in ("enter", "call") else ("[%s := %s]" % (e[1], e[2]) if e[0] == "store" else "")) for e in ev)
    problems = []
    enter = [e for e in ev if e[0] == "enter"]
    store = [e for e in ev if e[0] == "store"]
    ex = [e for e in ev if e[0] == "exit"]
    call = [e for e in ev if e[0] == "call" and e[1] == nwp]
    if not (ex and call and enter and store):
        problems.append("the protocol steps exit / evaluate condition / enter / store remainder are not all present")
    else:
        if not (ex[0][-1] < call[0][2] <= enter[0][2]):
            problems.append("the condition is not evaluated after leaving the previous branch and before entering the next")
        if enter[0][1] is None or enter[0][1] != I * C:
            problems.append("the branch is entered under %s, not under (no earlier branch) & (this condition)" % (enter[0][1],))
        if store[0][2] is None or store[0][2] == "None" or store[0][2] != I * (P.const(1) - C):
            problems.append("the remainder condition is %s, not (no earlier branch) & not (this condition)" % (store[0][2],))
        elif not (store[0][4] < enter[0][2] < store[0][3]):
            problems.append("the remainder is not computed before the guard is entered (or not stored after it)")
    if not problems:
        rule.ok(el.loc(), el.fq, desc[:200], "elif runs under 'no earlier branch and this condition'; the remainder, computed before "
                "entering, excludes it")
    else:
        rule.violation(el.loc(), el.fq, desc[:200], "elif condition algebra / ordering is wrong: " + "; ".join(problems), "algebra/_elif")
    es = ic.methods["_else"]
    ev = _protocol_events(es, {"self.icond": "I"})
    ex = [e for e in ev if e[0] == "exit"]
    enter = [e for e in ev if e[0] == "enter"]
    body = [norm(s) for s in es.node.body]
    if ex and enter and ex[0][-1] < enter[0][2] and enter[0][1] is not None and enter[0][1] == I:
        rule.ok(es.loc(), es.fq, "exit; enter(icond)", "else runs under 'no earlier branch'")
    else:
        rule.violation(es.loc(), es.fq, "; ".join(body), "else does not enter the accumulated negated condition", "algebra/_else")
    wh = wc.methods["_while"]
    body = [norm(s).replace(" ", "") for s in wh.node.body]
    nw = wh.params[1]
    if body[:2] == ["self.exit()", "self.enter(self.cond&%s)" % nw]:
        rule.ok(wh.loc(), wh.fq, "exit; enter(cond & c)", "loop continues only while every earlier continuation condition held")
    else:
        rule.violation(wh.loc(), wh.fq, "; ".join(body), "while continuation is not the conjunction with the previous condition", "algebra/_while")
    bk = repo.fn(BR, "_breakif")
    t = norm(bk.node.body).replace(" ", "")
    c_ = bk.params[0]
    if "._while(1-%s)" % c_ in t or "._while(~%s)" % c_ in t:
        rule.ok(bk.loc(), bk.fq, "break = while(1 - c)")
    else:
        rule.violation(bk.loc(), bk.fq, t[:100], "break condition is not and-not", "algebra/_breakif")
    init = ic.methods["__init__"]
    body = [norm(s).replace(" ", "") for s in init.node.body]
    c_ = init.params[1]
    i1 = [i for i, t in enumerate(body) if t in ("self.icond=1-%s" % c_, "self.icond=~%s" % c_)]
    i2 = [i for i, t in enumerate(body) if t.startswith("super().__init__(")]
    if i1 and i2 and i1[0] < i2[0]:
        rule.ok(init.loc(), init.fq, "icond = 1 - cond computed before the guard is installed")
    else:
        rule.violation(init.loc(), init.fq, "; ".join(body), "negated condition is not computed before entering the guard", "algebra/IfContext")
    # iterator: continuation decided by public comparisons
    nx = repo.cls(BR, "ObliviousIterator").methods["__next__"]
    from ..flatten import resolve_locals
    tests = [n for n in ast.walk(nx.node) if isinstance(n, ast.If)]
    rtxt = {id(t): norm(resolve_locals(nx.node, t.test)) for t in tests}
    pub = [t for t in tests if "self.ix < self.stop" in rtxt[id(t)] or "self.ix < self.max" in rtxt[id(t)]
           or "self.ix < (self.stop if isinstance(self.stop, int) else self.max)" in rtxt[id(t)]]
    if pub and "isinstance(self.stop, int)" in rtxt[id(pub[0])]:
        rule.ok(nx.loc(pub[0]), nx.fq, norm(pub[0].test)[:110], "the loop runs to the public bound (stop if public, else max)")
    else:
        rule.violation(nx.loc(), nx.fq, "; ".join(norm(t.test) for t in tests)[:140], "loop continuation is not decided by the public bound",
                       "algebra/iterator")


def check(repo, rep, tier):
    rep.explanation = ("The behavioural statement (same final values as a native twin for all nestings and inputs) is not "
                       "decidable statically.  Decided: satisfiability of the kind contracts along the enter/exit protocol "
                       "(computed with the abstract interpreter: which operand kinds make add_guard / if_then_else raise on "
                       "every path), arity of resolved method calls, the merge shape, the condition algebra and obliviousness.")
    rep.trusted = ["kind/dispatch model of sa/absint.py"]
    rep.not_decided = ["equivalence with native control flow over all programs and inputs (differential execution)"]
    r1 = rep.rule("R-C09-1", "kind contracts of the branch protocol are satisfiable; arities match", floor=3)
    rule_contracts(repo, r1)
    r2 = rep.rule("R-C09-2", "merge covers tracked variables with the branch value in the true position", floor=4)
    rule_merge(repo, r2)
    r3 = rep.rule("R-C09-3", "condition algebra of elif / else / while / break / for", floor=6)
    rule_algebra(repo, r3)
    r5 = rep.rule("R-C09-5", "lazily evaluated / nested branches run under exactly the conjunction of their conditions and leave "
                  "no guard behind (shared with C08)", floor=10)
    from .c08 import guard_discipline
    guard_discipline(repo, r5)
    r6 = rep.rule("R-C09-6", "constraints emitted in a branch that is not taken are satisfied: unguarded emissions hold for either "
                  "guard value, guarded ones go through the dummy path (shared with C07)", floor=4)
    from .c07 import rule_unguarded_emissions, rule_dummy_path
    rule_unguarded_emissions(repo, r6)
    rule_dummy_path(repo, r6)
    r8 = rep.rule("R-C09-8", "gadgets emit the same wires and constraints in a branch that is taken and in one that is not "
                  "(is_guard() hint arms vs dummy arms; shared with C07)", floor=2)
    from .c07 import rule_hint_arms
    from .c06 import VALUE_MODULES as _VM
    rule_hint_arms(repo, r8, set(_VM))
    r7 = rep.rule("R-C09-7", "merges select exactly: if_then_else returns the branch value iff the condition is 1 (shared with C02)", floor=2)
    from .c02 import rule_selection
    rule_selection(repo, r7)
    r4 = rep.rule("R-C09-4", "branching constructs are oblivious (C06 rules over branching.py)", floor=1)
    mods = {BR}
    eval_tainted_alts(repo, r4, mods)
    # the guard kernel of runtime.py decides HOW a constraint is emitted inside a branch: it must not depend on the
    # guard's value either (only on whether a guard is installed)
    KERNEL = ("pysnark.runtime:add_constraint", "pysnark.runtime:add_guard", "pysnark.runtime:restore_guard",
              "pysnark.runtime:is_guard", "pysnark.runtime:ignore_errors", "pysnark.runtime:add_constraint_unsafe")
    eval_tainted_alts(repo, r4, ("pysnark.runtime",), fq_filter=lambda fq: fq in KERNEL or fq.startswith("pysnark.runtime:guarded"))
    bad = eval_tainted_loops(repo, r4, mods)
    for (fq, itx), where in sorted(count_public_loops(repo, r4, mods).items()):
        if (fq, itx) not in bad:
            r4.ok(where, fq, "iteration space `%s`" % itx, "public iteration space")
