"""C15 - secret-index array access reads and writes exactly one element.

R-C15-1  one-hot selector over *every* position, with sum == 1 asserted, on both secret-index paths
R-C15-2  index agreement: read = inner product of selector and elements in the same order; write = per-position
         selection with the same index in all three places and the new value in the *true* position
R-C15-3  bounds check 0 <= index < len dominates the selector, raises IndexError, suppressible only by ignore_errors
R-C15-4  obliviousness of array.py / linalg.py (C06 rules)
R-C15-5  row views: secret-index reads of rows are wrapped read-only; multi-dimensional writes go through a copy
"""
import ast

from ..cfg import CFG, calls_in, own_stmt_part
from ..loader import norm, AnalysisError, parents
from ..poly import P
from ..relations import relations_when_false, show
from .c06 import eval_tainted_alts, eval_tainted_loops, count_public_loops

AR = "pysnark.array"


def secret_arm(fi):
    """The `isinstance(item, LinComb)` arm of __getitem__/__setitem__."""
    item = fi.params[1]
    for n in ast.walk(fi.node):
        if isinstance(n, ast.If) and norm(n.test) == "isinstance(%s, LinComb)" % item:
            return n
    return None


def check_selector(fi, arm, rule):
    item = fi.params[1]
    sel = None
    from ..seqs import seq_of
    for s in arm.body:
        if isinstance(s, ast.Assign) and isinstance(s.value, ast.ListComp):
            comp = s.value
            g = comp.generators[0]
            ix = norm(g.target)
            if norm(comp.elt) in ("%s == %s" % (item, ix), "%s == %s" % (ix, item)):
                sel = (s, norm(s.targets[0]), g)
    where = fi.loc(arm)
    if sel is None:
        rule.violation(where, fi.fq, norm(arm.body)[:120], "secret index is not expanded into an equality selector", "%s/selector" % fi.qual)
        return None
    s, name, g = sel
    # the selector as a sequence (sa/seqs.py): one flag `item == i` per position i of self.arr, in order
    sq = seq_of(s.value, s, 0)
    if sq is not None and sq.base == "self.arr" and not sq.rev and not g.ifs and norm(sq.elt) in ("%s == __i0" % item, "__i0 == %s" % item):
        rule.ok(fi.loc(s), fi.fq, norm(s), "selector covers every position")
    else:
        rule.violation(fi.loc(s), fi.fq, norm(s), "selector does not range over every position of the array (an element could "
                       "never be selected)", "%s/selector-range" % fi.qual)
    asserts = [c for st in arm.body for c in ast.walk(st) if isinstance(c, ast.Call) and isinstance(c.func, ast.Attribute)
               and c.func.attr == "assert_eq"]
    good = [c for c in asserts if norm(c.func.value) == "sum(%s)" % name and c.args and norm(c.args[0]) == "1"]
    if good:
        idx_sel = arm.body.index(s)
        st = [x for x in arm.body if good[0] in list(ast.walk(x))][0]
        if arm.body.index(st) > idx_sel:
            rule.ok(fi.loc(good[0]), fi.fq, norm(good[0]), "exactly one position is selected (also makes an out-of-range index unprovable)")
    else:
        rule.violation(where, fi.fq, "; ".join(norm(c) for c in asserts) or "no assertion", "the selector is not constrained to "
                       "contain exactly one 1: an out-of-range index could be proven (selecting nothing)", "%s/sum1" % fi.qual)
    return name


_SELECT_HELPERS = {}      # name -> FunctionDef of module-level helpers of pysnark.array that ARE a selection (filled by rule_access)


def _is_select_helper(fn):
    """def h(sel, new, old): every return is  if_then_else(sel, new, old)  |  old  where the test says new == old (nothing to
    select)  |  the same helper applied cell by cell to two rows of equal shape:  Array([h(sel, n, o) for n, o in zip(new.arr, old.arr)])"""
    ps = [a.arg for a in fn.args.args]
    if len(ps) != 3 or fn.args.vararg or fn.args.kwarg:
        return False
    s, n, o = ps
    rets = [r for r in ast.walk(fn) if isinstance(r, ast.Return)]
    if not rets:
        return False
    for r in rets:
        t = norm(r.value) if r.value is not None else ""
        if t in ("if_then_else(%s, %s, %s)" % (s, n, o), "%s.__if_then_else__(%s, %s)" % (n, o, s)):
            continue
        if t == o and any(isinstance(p_, ast.If) and any(x in norm(p_.test).replace(" ", "") for x in ("%s==%s" % (n, o), "%s==%s" % (o, n), "%sis%s" % (n, o), "%sis%s" % (o, n)))
                          and any(r is x for st in p_.body for x in ast.walk(st)) for p_ in parents(r)):
            continue
        v = r.value
        if isinstance(v, ast.Call) and norm(v.func) in ("Array", "list", "tuple") and len(v.args) == 1:
            v = v.args[0]
        if isinstance(v, (ast.ListComp, ast.GeneratorExp)) and len(v.generators) == 1 and not v.generators[0].ifs \
                and isinstance(v.generators[0].target, ast.Tuple) and len(v.generators[0].target.elts) == 2:
            a_, b_ = (norm(x) for x in v.generators[0].target.elts)
            if norm(v.generators[0].iter).replace(" ", "") in ("zip(%s.arr,%s.arr)" % (n, o), "zip(%s,%s)" % (n, o)) \
                    and norm(v.elt) == "%s(%s, %s, %s)" % (fn.name, s, a_, b_):
                continue
        return False
    return True


def selection_of(e):
    """(cond, value if cond, value otherwise) of a selection, however it is spelled:
       if_then_else(c, t, f)  |  t.__if_then_else__(f, c)  |  f + c * (t - f)  |  a selection helper h(c, t, f)"""
    if isinstance(e, ast.Call) and isinstance(e.func, ast.Name) and e.func.id in _SELECT_HELPERS and len(e.args) == 3 and not e.keywords:
        return e.args[0], e.args[1], e.args[2]
    if isinstance(e, ast.Call) and norm(e.func).split(".")[-1] == "if_then_else" and len(e.args) == 3 and not e.keywords:
        return e.args[0], e.args[1], e.args[2]
    if isinstance(e, ast.Call) and isinstance(e.func, ast.Attribute) and e.func.attr == "__if_then_else__" and len(e.args) == 2:
        return e.args[1], e.func.value, e.args[0]
    if isinstance(e, ast.BinOp) and isinstance(e.op, ast.Add):
        for f_, prod in ((e.left, e.right), (e.right, e.left)):
            if isinstance(prod, ast.BinOp) and isinstance(prod.op, ast.Mult):
                for c_, d_ in ((prod.left, prod.right), (prod.right, prod.left)):
                    if isinstance(d_, ast.BinOp) and isinstance(d_.op, ast.Sub) and norm(d_.right) == norm(f_):
                        return c_, d_.left, f_
    return None


def rule_access(repo, r1, r2, r3):
    ci = repo.cls(AR, "Array")
    gi, si = ci.methods.get("__getitem__"), ci.methods.get("__setitem__")
    if gi is None or si is None:
        raise AnalysisError("Array.__getitem__/__setitem__ not found")
    _SELECT_HELPERS.clear()
    for s_ in ci.module.tree.body:
        if isinstance(s_, ast.FunctionDef) and _is_select_helper(s_):
            _SELECT_HELPERS[s_.name] = s_
    for fi in (gi, si):
        arm = secret_arm(fi)
        if arm is None:
            r1.violation(fi.loc(), fi.fq, "no isinstance(item, LinComb) arm", "secret indices are not handled", "%s/arm" % fi.qual)
            continue
        name = check_selector(fi, arm, r1)
        item = fi.params[1]
        # ---- bounds check
        tests = [s for s in arm.body if isinstance(s, ast.If) and s.body and isinstance(s.body[0], ast.Raise)]
        ok = False
        for t in tests:
            test = t.test
            sup = False
            if isinstance(test, ast.BoolOp) and isinstance(test.op, ast.And):
                rest = [v for v in test.values if "ignore_errors()" not in norm(v)]
                sup = len(rest) < len(test.values) and any(norm(v) in ("not ignore_errors()",) for v in test.values)
                test2 = rest[0] if len(rest) == 1 else test
            else:
                test2 = test
            from ..flatten import resolve_locals as _rl
            rel = relations_when_false(_rl(fi.node, test2), {"%s.value" % item: P.sym("i"), "len(self.arr)": P.sym("n")})
            want = sorted(map(str, [(">=0", P.sym("i")), (">=0", P.sym("n") - P.sym("i") - 1)]))
            if rel is not None and sorted(map(str, rel)) == want:
                exc = norm(t.body[0].exc.func) if isinstance(t.body[0].exc, ast.Call) else norm(t.body[0].exc)
                first_sel = [i for i, s in enumerate(arm.body) if isinstance(s, ast.Assign) and isinstance(s.value, ast.ListComp)]
                dominates = (not first_sel) or arm.body.index(t) < first_sel[0]
                if exc == "IndexError" and sup and dominates:
                    ok = True
                    r3.ok(fi.loc(t), fi.fq, "accepts exactly %s; raises IndexError; suppressed only by ignore_errors()" % " and ".join(show(x) for x in rel))
                else:
                    r3.violation(fi.loc(t), fi.fq, norm(t.test), "bounds check %s" % ("does not raise IndexError" if exc != "IndexError" else
                                 ("is not suppressible by ignore_errors()" if not sup else "comes after the selector")), "%s/bounds-form" % fi.qual)
                    ok = True
        if not ok:
            r3.violation(fi.loc(arm), fi.fq, "; ".join(norm(t.test) for t in tests) or "no check", "secret index is not checked against "
                         "0 <= index < len(array) (off-by-one or missing)", "%s/bounds" % fi.qual)
        if name is None:
            continue
        # ---- index agreement
        if fi is gi:
            reads = [c for s in arm.body for c in ast.walk(s) if isinstance(c, ast.Call) and norm(c.func).endswith("lin_comb")]
            from ..seqs import seq_of
            sq_ = [seq_of(a, reads[0], 0) for a in reads[0].args] if reads and len(reads[0].args) == 2 else []
            if sq_ and all(q is not None and q.base == "self.arr" and not q.rev and q.index_of is None for q in sq_) \
                    and norm(sq_[0].elt) in ("%s == __i0" % item, "__i0 == %s" % item) and norm(sq_[1].elt) == "__e0":
                r2.ok(fi.loc(reads[0]), fi.fq, norm(reads[0]), "inner product of the selector with the elements")
            else:
                r2.violation(fi.loc(arm), fi.fq, "; ".join(norm(c) for c in reads) or "no lin_comb", "the value read is not the inner "
                             "product of the selector with the array's elements", "%s/read" % fi.qual)
        else:
            loops = [s for s in arm.body if isinstance(s, ast.For)]
            good = False
            from ..seqs import resolve_at
            val = fi.params[2]
            # the whole content replaced at once:  self.arr[:] = [SELECTION(position) for every position]
            from ..seqs import seq_of as _sq15
            for st in arm.body:
                if isinstance(st, ast.Assign) and len(st.targets) == 1 and norm(st.targets[0]) in ("self.arr[:]", "self.arr") \
                        and isinstance(st.value, ast.ListComp):
                    sq = _sq15(st.value, st, 0)
                    if sq is None or sq.base != "self.arr" or sq.rev or sq.order is not None:
                        continue
                    good = True
                    from ..flatten import _Subst as _S15
                    from ..loader import clone as _c15
                    # positions are walked through range(len(self.arr)): the element at the position is self.arr[__i0]
                    v = sq.elt
                    selc = selection_of(v)
                    want_c = ("%s == __i0" % item, "__i0 == %s" % item)
                    cond_txt = norm(selc[0]) if selc is not None else ""
                    cond_txt = cond_txt.replace("%s[__i0]" % name, "%s == __i0" % item)      # the selector checked by R-C15-1
                    if selc is not None and cond_txt in want_c and norm(selc[1]) == val and norm(selc[2]) in ("__e0", "self.arr[__i0]"):
                        r2.ok(fi.loc(st), fi.fq, norm(st)[:100], "every position takes the new value iff its selector is set, else keeps its own")
                    else:
                        r2.violation(fi.loc(st), fi.fq, norm(st)[:100], "per-position selection is not select(selector[ix], new, old[ix]) "
                                     "over every position", "%s/write" % fi.qual)
            for lp in loops:
                # every store into self.arr inside the loop, with index and value expressed in the position __i0 / the element
                # __e0 of self.arr the loop is at (however the loop is written: range(len), enumerate, zip)
                for st in ast.walk(lp):
                    if not (isinstance(st, ast.Assign) and len(st.targets) == 1 and isinstance(st.targets[0], ast.Subscript)
                            and norm(st.targets[0].value) == "self.arr"):
                        continue
                    idx, lps = resolve_at(fi.node, st, st.targets[0].slice)
                    sq0 = lps[0][1] if lps else None
                    if sq0 is None or sq0.base != "self.arr":
                        continue
                    v, _ = resolve_at(fi.node, st, st.value)
                    selc = selection_of(v)
                    want_c = ("%s == __i0" % item, "__i0 == %s" % item)
                    good = True
                    if norm(idx) == "__i0" and selc is not None and norm(selc[0]) in want_c and norm(selc[1]) == val \
                            and norm(selc[2]) in ("__e0", "self.arr[__i0]"):
                        r2.ok(fi.loc(st), fi.fq, norm(st), "position ix takes the new value iff selector[ix], else keeps its own")
                    else:
                        r2.violation(fi.loc(st), fi.fq, norm(st), "per-position selection is not if_then_else(selector[ix], new, "
                                     "old[ix]) with one index", "%s/write" % fi.qual)
            if not good:
                r2.violation(fi.loc(arm), fi.fq, norm(arm.body)[:120], "secret-index write is not a per-position selection over every "
                             "position", "%s/write-loop" % fi.qual)
    # lin_comb pairs coefficient i with value i
    lc = repo.fn("pysnark.linalg", "lin_comb")
    rets = [n for n in ast.walk(lc.node) if isinstance(n, ast.Return)]
    a, b = lc.params
    t = norm(rets[0].value).replace(" ", "") if rets else ""
    ok = False
    if rets and isinstance(rets[0].value, ast.Call) and norm(rets[0].value.func) == "sum":
        comp = rets[0].value.args[0]
        if isinstance(comp, (ast.ListComp, ast.GeneratorExp)) and not comp.generators[0].ifs and \
                norm(comp.generators[0].iter) in ("zip(%s, %s)" % (a, b),):
            c, v = [norm(e) for e in comp.generators[0].target.elts]
            ok = norm(comp.elt) in ("%s * %s" % (c, v), "%s * %s" % (v, c))
    if ok:
        r2.ok(lc.loc(), lc.fq, norm(rets[0].value), "coefficient i multiplies value i, all pairs summed")
    else:
        r2.violation(lc.loc(), lc.fq, t[:100], "lin_comb is not sum(c_i * v_i) over zip(cofs, vals)", "lin_comb")


def rule_rows(repo, rule):
    ci = repo.cls(AR, "Array")
    gi, si = ci.methods["__getitem__"], ci.methods["__setitem__"]
    arm = secret_arm(gi)
    # the value read (whatever the local is called) is wrapped when it is a row:  if isinstance(X, Array): X = ArrayRow(X)
    wraps = []
    for s in (arm.body if arm else []):
        if isinstance(s, ast.If) and isinstance(s.test, ast.Call) and norm(s.test.func) == "isinstance" and len(s.test.args) == 2 \
                and isinstance(s.test.args[0], ast.Name) and norm(s.test.args[1]) == "Array":
            x_ = s.test.args[0].id
            if any(isinstance(b, ast.Assign) and norm(b.targets[0]) == x_ and norm(b.value) == "ArrayRow(%s)" % x_ for b in s.body) and any(
                    isinstance(r, ast.Return) and r.value is not None and norm(r.value) == x_ for r in ast.walk(arm)):
                wraps.append(s)
        elif isinstance(s, ast.Assign) and isinstance(s.value, ast.IfExp) and isinstance(s.targets[0], ast.Name):
            x_ = s.targets[0].id
            if norm(s.value.test) == "isinstance(%s, Array)" % x_ and norm(s.value.body) == "ArrayRow(%s)" % x_ and norm(s.value.orelse) == x_:
                wraps.append(s)
        elif isinstance(s, ast.Return) and isinstance(s.value, ast.IfExp) and isinstance(s.value.orelse, ast.Name):
            x_ = s.value.orelse.id       # return ArrayRow(x) if isinstance(x, Array) else x
            if norm(s.value.test) == "isinstance(%s, Array)" % x_ and norm(s.value.body) == "ArrayRow(%s)" % x_:
                wraps.append(s)
            elif norm(s.value.test) == "not isinstance(%s, Array)" % x_ and norm(s.value.body) == x_:
                pass
    if wraps:
        rule.ok(gi.loc(wraps[0]), gi.fq, norm(wraps[0])[:90], "a row read at a secret index is a read-only view")
    else:
        rule.violation(gi.loc(), gi.fq, "no ArrayRow wrap", "a[x][y] = v on a secret-index row would silently write to a temporary",
                       "rows/wrap")
    row = repo.cls(AR, "ArrayRow")
    st = row.methods.get("__setitem__")
    if st is not None and all(isinstance(s, ast.Raise) or (isinstance(s, ast.Expr) and isinstance(s.value, ast.Constant)) for s in st.node.body):
        rule.ok(st.loc(), st.fq, norm(st.node.body)[:80], "assignment through a row view always raises")
    else:
        rule.violation(row.module.relpath, row.fq, "ArrayRow.__setitem__", "row views accept assignment", "rows/setitem")
    # Array(x) is a copy: the constructor stores a list of its own on every path (the `row = Array(row)` step of a
    # multi-dimensional write - and any user copy - must not write through to the operand)
    init = ci.methods.get("__init__")
    if init is not None:
        stores = [a for a in ast.walk(init.node) if isinstance(a, ast.Assign) and len(a.targets) == 1
                  and norm(a.targets[0]) == "%s.arr" % init.params[0]]
        from ..flatten import resolve_locals as _rl15i
        shared = [a for a in stores if not (
            (isinstance(_rl15i(init.node, a.value), ast.Call) and norm(_rl15i(init.node, a.value).func) == "list")
            or isinstance(_rl15i(init.node, a.value), (ast.List, ast.ListComp))
            or (isinstance(_rl15i(init.node, a.value), ast.Subscript) and isinstance(_rl15i(init.node, a.value).slice, ast.Slice)))]
        if stores and not shared:
            rule.ok(init.loc(), init.fq, "; ".join(norm(a) for a in stores)[:120], "an Array owns its list: constructing one from another copies")
        elif stores:
            rule.violation(init.loc(shared[0]), init.fq, norm(shared[0]), "Array(x) can share x's list: the copy made before a multi-"
                           "dimensional write (and any user copy) writes through to the array it was made from", "rows/ctor-shares")
    # multi-dimensional read: a[i, j, ...] is a[i][j, ...] - the first component indexes this array, the rest index the element.
    # Decided only on returns of the shape self[item<c1>][item<c2>] (locals substituted): the components in any other
    # arrangement read another element (a transposed read is invisible on square inputs).  Other shapes are not judged here.
    from ..flatten import resolve_locals as _rl15g
    gitem = gi.params[1]
    gtup = [n for n in ast.walk(gi.node) if isinstance(n, ast.If) and norm(n.test) == "isinstance(%s, tuple)" % gitem]
    for t in gtup:
        for r_ in [x for x in t.body if isinstance(x, ast.Return) and x.value is not None]:
            e = _rl15g(gi.node, r_.value, keep={gitem})
            if isinstance(e, ast.Subscript) and isinstance(e.value, ast.Subscript) and norm(e.value.value) == gi.params[0] \
                    and norm(e.value.slice).startswith(gitem + "[") and norm(e.slice).startswith(gitem + "["):
                first, rest = norm(e.value.slice), norm(e.slice)
                if first == "%s[0]" % gitem and rest == "%s[1:]" % gitem:
                    rule.ok(gi.loc(r_), gi.fq, norm(e)[:90], "a[i, j, ...] reads a[i][j, ...]")
                else:
                    rule.violation(gi.loc(r_), gi.fq, norm(e)[:120], "multi-dimensional read does not index this array by the first component "
                                   "and the element by the remaining ones (a[i, j] would read another element)", "rows/read")
    # multi-dimensional write
    item, val = si.params[1], si.params[2]
    tup = [n for n in ast.walk(si.node) if isinstance(n, ast.If) and norm(n.test) == "isinstance(%s, tuple)" % item and n is not si.node.body[0]]
    tup = [t for t in tup if "len(" not in norm(t.test)]
    if not tup:
        rule.undecided(si.loc(), si.fq, "tuple arm", "multi-dimensional write path not found")
        return
    body = tup[-1].body
    txt = [norm(s) for s in body]
    # straight-line protocol over the arm: row <- self[item[0]] ; row made writable (Array(row) when it is an ArrayRow) ;
    # row[item[1:]] = value ; self[item[0]] = row      (index expressions compared after substituting single-use locals)
    from ..flatten import resolve_locals as _rl15

    def R(e):
        return norm(_rl15(si.node, e, keep={item, val}))
    it, copied, written, stored, order = None, False, False, False, True
    for s in body:
        if isinstance(s, ast.Assign) and len(s.targets) == 1 and isinstance(s.targets[0], ast.Name) and isinstance(s.value, ast.Subscript) \
                and norm(s.value.value) == si.params[0] and R(s.value.slice) == "%s[0]" % item and it is None:
            it = s.targets[0].id
        elif it is not None and isinstance(s, ast.If) and norm(s.test) == "isinstance(%s, ArrayRow)" % it and not s.orelse \
                and len(s.body) == 1 and norm(s.body[0]) == "%s = Array(%s)" % (it, it):
            copied = True
        elif it is not None and isinstance(s, ast.Assign) and norm(s.targets[0]) == it and isinstance(s.value, ast.IfExp) \
                and norm(s.value.test) == "isinstance(%s, ArrayRow)" % it and norm(s.value.body) == "Array(%s)" % it and norm(s.value.orelse) == it:
            copied = True
        elif it is not None and isinstance(s, ast.Assign) and norm(s.targets[0]) == it and norm(s.value) == "Array(%s)" % it:
            copied = True           # unconditional copy
        elif it is not None and isinstance(s, ast.Assign) and isinstance(s.targets[0], ast.Subscript) and norm(s.targets[0].value) == it \
                and R(s.targets[0].slice) == "%s[1:]" % item and norm(s.value) == val:
            written = True
            order = order and copied and not stored
        elif it is not None and isinstance(s, ast.Assign) and isinstance(s.targets[0], ast.Subscript) and norm(s.targets[0].value) == si.params[0] \
                and R(s.targets[0].slice) == "%s[0]" % item and norm(s.value) == it:
            stored = True
            order = order and written
    ok = it is not None and copied and written and stored
    if ok and order:
        rule.ok(si.loc(tup[-1]), si.fq, "; ".join(txt)[:140], "row copied, written, stored back at item[0]")
    else:
        rule.violation(si.loc(tup[-1]), si.fq, "; ".join(txt)[:160], "multi-dimensional write does not copy the row, write it and "
                       "store it back", "rows/write")


def check(repo, rep, tier):
    rep.explanation = ("Shape and relational checks of the two secret-index paths of Array: selector over range(len(arr)), "
                       "sum == 1, canonical affine bounds relation, index agreement of the inner product / per-position "
                       "selection, row-view protocol; plus the C06 non-interference analysis over array.py and linalg.py.")
    rep.trusted = ["if_then_else(c, a, b) selects a when c is 1 (C02/C09)", "item == ix yields a Boolean wire (C02)"]
    rep.not_decided = ["value agreement with Python lists over all contents / indices / histories"]
    r6 = rep.rule("R-C15-6", "the per-position multiplexer if_then_else selects exactly (shared with C02)", floor=2)
    from .c02 import rule_selection
    rule_selection(repo, r6)
    r1 = rep.rule("R-C15-1", "one-hot selector over every position with sum == 1", floor=4)
    r2 = rep.rule("R-C15-2", "index agreement of read and write", floor=3)
    r3 = rep.rule("R-C15-3", "bounds check 0 <= index < len, IndexError, suppressible", floor=2)
    rule_access(repo, r1, r2, r3)
    r4 = rep.rule("R-C15-4", "array access is oblivious (C06 rules over array.py, linalg.py)", floor=3)
    mods = {AR, "pysnark.linalg"}
    eval_tainted_alts(repo, r4, mods)
    bad = eval_tainted_loops(repo, r4, mods)
    for (fq, itx), where in sorted(count_public_loops(repo, r4, mods).items()):
        if (fq, itx) not in bad:
            r4.ok(where, fq, "iteration space `%s`" % itx, "public iteration space")
    r5 = rep.rule("R-C15-5", "row views are read-only; multi-dimensional writes copy and store back", floor=3)
    rule_rows(repo, r5)
