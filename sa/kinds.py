"""Abstract values: operand kind x taint x (optional) constant x (optional) callable."""

NOCONST = object()

INTLIKE = frozenset(["int", "bool", "float"])
WIRES = frozenset(["LC", "LCB", "LCF"])
UNK = frozenset(["?"])

CLASS_KIND = {
    "pysnark.runtime:LinComb": "LC",
    "pysnark.boolean:LinCombBool": "LCB",
    "pysnark.fixedpoint:LinCombFxp": "LCF",
    "pysnark.array:Array": "Array",
    "pysnark.array:ArrayRow": "Array",
    "pysnark.snarkjsbackend:LinearCombination": "BLC",
    "pysnark.zkinterface.backend:LinearCombination": "BLC",
    "pysnark.qaptools.backend:Sig": "BLC",
    "pysnark.nobackend:NoneObject": "BLC",
}
KIND_CLASS = {
    "LC": ("pysnark.runtime", "LinComb"),
    "LCB": ("pysnark.boolean", "LinCombBool"),
    "LCF": ("pysnark.fixedpoint", "LinCombFxp"),
    "Array": ("pysnark.array", "Array"),
}
BUILTIN_TYPE_KIND = {"int": "int", "float": "float", "bool": "bool", "str": "str",
                     "list": "list", "tuple": "tuple", "dict": "dict"}


class Closure:
    """A function value: FunctionInfo + the environment it was defined in (by reference)."""
    __slots__ = ("fi", "env", "bound_self")

    def __init__(self, fi, env=None, bound_self=None):
        self.fi = fi
        self.env = env
        self.bound_self = bound_self

    def key(self):
        return ("clo", self.fi.fq, self.bound_self.key() if self.bound_self is not None else None)


class V:
    __slots__ = ("kind", "taint", "const", "fn", "elem", "ref", "items")

    def __init__(self, kind=UNK, taint=False, const=NOCONST, fn=None, elem=None, ref=None, items=None):
        if isinstance(kind, str):
            kind = frozenset([kind])
        self.kind = kind
        self.taint = taint
        self.const = const
        self.fn = fn          # Closure | ('backend', name) | ('class', ClassInfo) | ('module', name) | ('builtin', name)
        self.elem = elem      # V of elements for list/tuple kinds (joined)
        self.ref = ref        # symbolic reference, e.g. ('global', mod, name)
        self.items = items    # per-position values of a literal tuple/list display (or None)

    def key(self):
        c = None if self.const is NOCONST else repr(self.const)
        f = None
        if isinstance(self.fn, Closure):
            f = self.fn.key()
        elif self.fn is not None:
            f = (self.fn[0], getattr(self.fn[1], "fq", self.fn[1]))
        e = self.elem.key() if self.elem is not None else None
        it = tuple(x.key() for x in self.items) if self.items is not None else None
        return (tuple(sorted(self.kind)), self.taint, c, f, e, it)

    def is_intlike(self):
        return self.kind <= INTLIKE

    def may_be(self, k):
        return k in self.kind or "?" in self.kind

    def only(self, k):
        return self.kind == frozenset([k])

    def with_taint(self, t):
        if t == self.taint:
            return self
        return V(self.kind, t, self.const, self.fn, self.elem, self.ref, self.items)

    def __repr__(self):
        s = "|".join(sorted(self.kind))
        if self.elem is not None:
            s += "[%r]" % (self.elem,)
        if self.taint:
            s += "!"
        if self.const is not NOCONST:
            s += "=%r" % (self.const,)
        return s


def join(a, b):
    if a is None:
        return b
    if b is None:
        return a
    if a is b:
        return a
    kind = a.kind | b.kind
    const = a.const if (a.const is not NOCONST and b.const is not NOCONST
                        and type(a.const) is type(b.const) and a.const == b.const) else NOCONST
    fn = a.fn if (a.fn is not None and b.fn is not None and _fnkey(a.fn) == _fnkey(b.fn)) else None
    elem = join(a.elem, b.elem) if (a.elem is not None or b.elem is not None) else None
    items = None
    if a.items is not None and b.items is not None and len(a.items) == len(b.items):
        items = [join(x, y) for x, y in zip(a.items, b.items)]
    return V(kind, a.taint or b.taint, const, fn, elem, None, items)


def _fnkey(f):
    if isinstance(f, Closure):
        return f.key()
    return (f[0], getattr(f[1], "fq", f[1]))


def unknown(taint=False):
    return V(UNK, taint)


def const(c):
    if c is None:
        return V("none", False, None)
    if isinstance(c, bool):
        return V("bool", False, c)
    if isinstance(c, int):
        return V("int", False, c)
    if isinstance(c, float):
        return V("float", False, c)
    if isinstance(c, str):
        return V("str", False, c)
    if c is Ellipsis:
        return V("?")
    return V("?")


def listof(elem, kind="list"):
    return V(kind, False, NOCONST, None, elem)


CONTAINERS = frozenset(["list", "tuple", "dict", "set", "str"])


def shape_tainted(v):
    """The *shape* (length / membership) of a container value depends on a secret value.
    Only meaningful when the value is known to be a container."""
    return bool(v.taint and v.kind <= CONTAINERS)
