"""Parse the working tree of the repository and build module/class/function tables.

Only the standard library `ast` is used; nothing from the repository is imported.
"""
import ast
import hashlib
import os


class AnalysisError(Exception):
    """The tree cannot be analysed (vanished anchor, unparsable file, ...)."""


def norm(node):
    """Normalised source text of a node (position/format independent)."""
    if node is None:
        return ""
    if isinstance(node, list):
        return "; ".join(norm(n) for n in node)
    try:
        return " ".join(ast.unparse(node).split())
    except Exception:  # pragma: no cover
        return ast.dump(node)


class FunctionInfo:
    def __init__(self, module, node, qual, cls=None, parent=None):
        self.module = module          # ModuleInfo
        self.node = node              # ast.FunctionDef | ast.Lambda
        self.qual = qual              # e.g. "LinComb.__mul__" / "guarded._guarded.__guarded"
        self.cls = cls                # ClassInfo or None (for methods)
        self.parent = parent          # enclosing FunctionInfo or None
        self.children = {}            # nested function name -> FunctionInfo
        self.local_imports = {}       # name -> binding (see ModuleInfo.bindings)

    @property
    def name(self):
        return getattr(self.node, "name", "<lambda>")

    @property
    def fq(self):
        return self.module.name + ":" + self.qual

    @property
    def params(self):
        a = self.node.args
        return [x.arg for x in a.posonlyargs + a.args]

    @property
    def all_params(self):
        a = self.node.args
        r = [x.arg for x in a.posonlyargs + a.args]
        if a.vararg:
            r.append(a.vararg.arg)
        r += [x.arg for x in a.kwonlyargs]
        if a.kwarg:
            r.append(a.kwarg.arg)
        return r

    def param_default(self, name):
        a = self.node.args
        pos = a.posonlyargs + a.args
        defs = a.defaults
        off = len(pos) - len(defs)
        for i, p in enumerate(pos):
            if p.arg == name and i >= off:
                return defs[i - off]
        for p, d in zip(a.kwonlyargs, a.kw_defaults):
            if p.arg == name:
                return d
        return None

    @property
    def body(self):
        b = self.node.body
        return b if isinstance(b, list) else [ast.Return(value=b)]

    @property
    def is_classmethod(self):
        return any(isinstance(d, ast.Name) and d.id == "classmethod"
                   for d in getattr(self.node, "decorator_list", []))

    @property
    def is_staticmethod(self):
        return any(isinstance(d, ast.Name) and d.id == "staticmethod"
                   for d in getattr(self.node, "decorator_list", []))

    def loc(self, node=None):
        n = node if node is not None else self.node
        return "%s:%s" % (self.module.relpath, getattr(n, "lineno", "?"))

    def __repr__(self):
        return "<fn %s>" % self.fq


def clone(n):
    """Deep copy of an AST (fields and positions only - NOT the `_parent` back links, which would drag the whole module
    along as copy.deepcopy does)."""
    if isinstance(n, ast.AST):
        new = n.__class__()
        for f in n._fields:
            if hasattr(n, f):
                setattr(new, f, clone(getattr(n, f)))
        for a in n._attributes:
            if hasattr(n, a):
                setattr(new, a, getattr(n, a))
        return new
    if isinstance(n, list):
        return [clone(x) for x in n]
    return n


class ClassInfo:
    def __init__(self, module, node):
        self.module = module
        self.node = node
        self.name = node.name
        self.methods = {}     # name -> FunctionInfo (own definitions)
        self.aliases = {}     # name -> name  (class-level  __radd__ = __add__)
        self.attrs = {}       # other class-level assignments name -> value node
        self.base_names = [norm(b) for b in node.bases]

    @property
    def fq(self):
        return self.module.name + ":" + self.name


class ModuleInfo:
    def __init__(self, name, path, relpath, src):
        self.name = name
        self.path = path
        self.relpath = relpath
        self.src = src
        self.digest = hashlib.sha256(src.encode("utf-8", "replace")).hexdigest()
        self.tree = ast.parse(src, filename=path)
        from .classnorm import expand_class_factories
        expand_class_factories(self.tree)
        self.functions = {}    # qual -> FunctionInfo (all, incl. nested and methods)
        self.classes = {}      # name -> ClassInfo
        # top-level bindings: name -> ("module", modname) | ("attr", modname, attr)
        #                         | ("def", FunctionInfo) | ("class", ClassInfo) | ("value", node)
        self.bindings = {}
        self.star_imports = []  # module names
        self.lambdas = {}       # id(node) -> FunctionInfo
        for n in ast.walk(self.tree):
            for c in ast.iter_child_nodes(n):
                c._parent = n


def _resolve_relative(modname, is_pkg, level, target):
    if level == 0:
        return target
    parts = modname.split(".")
    if not is_pkg:
        parts = parts[:-1]
    if level > 1:
        parts = parts[: len(parts) - (level - 1)]
    if target:
        parts = parts + target.split(".")
    return ".".join(parts)


class Repo:
    """All python modules of the `pysnark` package in <root>."""

    PKG = "pysnark"

    def __init__(self, root, extra_dirs=()):
        self.root = os.path.abspath(root)
        self.modules = {}
        pkgdir = os.path.join(self.root, self.PKG)
        if not os.path.isdir(pkgdir):
            raise AnalysisError("package directory %s not found" % pkgdir)
        for d, _dirs, files in sorted(os.walk(pkgdir)):
            _dirs.sort()
            for f in sorted(files):
                if f.endswith(".py"):
                    self._load(os.path.join(d, f))
        self.clients = {}
        for ed in extra_dirs:
            edp = os.path.join(self.root, ed)
            if os.path.isdir(edp):
                for f in sorted(os.listdir(edp)):
                    if f.endswith(".py"):
                        try:
                            self._load(os.path.join(edp, f), client=True)
                        except AnalysisError:
                            pass
        for m in list(self.modules.values()) + list(self.clients.values()):
            self._index(m)
        for m in list(self.modules.values()) + list(self.clients.values()):
            self._expand_star(m, set())
        self.flatten_log = []
        try:
            from .flatten import flatten_repo
            flatten_repo(self)
        except Exception as e:  # pragma: no cover - flattening is an aid, never a verdict
            self.flatten_log = ["flattening failed: %r" % (e,)]

    # ------------------------------------------------------------------ loading
    def _load(self, path, client=False):
        rel = os.path.relpath(path, self.root)
        parts = rel[:-3].split(os.sep)
        is_pkg = parts[-1] == "__init__"
        if is_pkg:
            parts = parts[:-1]
        name = ".".join(parts)
        try:
            with open(path, encoding="utf-8", errors="replace") as fh:
                src = fh.read()
            mi = ModuleInfo(name, path, rel, src)
            mi.repo = self
        except SyntaxError as e:
            raise AnalysisError("cannot parse %s: %s" % (rel, e))
        mi.is_pkg = is_pkg
        mi.is_client = client
        (self.clients if client else self.modules)[name] = mi

    def _index(self, m):
        def bind_import(node, table):
            if isinstance(node, ast.Import):
                for a in node.names:
                    if a.asname:
                        table[a.asname] = ("module", a.name)
                    else:
                        top = a.name.split(".")[0]
                        table[top] = ("module", top)
            else:
                src = _resolve_relative(m.name, m.is_pkg, node.level, node.module or "")
                for a in node.names:
                    if a.name == "*":
                        if table is m.bindings:
                            m.star_imports.append(src)
                        continue
                    sub = src + "." + a.name
                    if sub in self.modules:
                        table[a.asname or a.name] = ("module", sub)
                    else:
                        table[a.asname or a.name] = ("attr", src, a.name)

        def index_fn(node, qual, cls, parent):
            fi = FunctionInfo(m, node, qual, cls, parent)
            m.functions[qual] = fi
            for sub in self._walk_scope(node):
                if isinstance(sub, (ast.FunctionDef, ast.AsyncFunctionDef)):
                    ch = index_fn(sub, qual + "." + sub.name, None, fi)
                    fi.children[sub.name] = ch
                elif isinstance(sub, (ast.Import, ast.ImportFrom)):
                    bind_import(sub, fi.local_imports)
                elif isinstance(sub, ast.Lambda):
                    lq = "%s.<lambda@%d:%d>" % (qual, sub.lineno, sub.col_offset)
                    lf = FunctionInfo(m, sub, lq, None, fi)
                    m.functions[lq] = lf
                    m.lambdas[id(sub)] = lf
            return fi

        def index_stmts(stmts):
            for node in stmts:
                if isinstance(node, (ast.FunctionDef, ast.AsyncFunctionDef)):
                    fi = index_fn(node, node.name, None, None)
                    m.bindings[node.name] = ("def", fi)
                elif isinstance(node, ast.ClassDef):
                    ci = ClassInfo(m, node)
                    m.classes[node.name] = ci
                    m.bindings[node.name] = ("class", ci)
                    for sub in node.body:
                        if isinstance(sub, (ast.FunctionDef, ast.AsyncFunctionDef)):
                            ci.methods[sub.name] = index_fn(sub, node.name + "." + sub.name, ci, None)
                        elif isinstance(sub, ast.Assign) and len(sub.targets) == 1 \
                                and isinstance(sub.targets[0], ast.Name):
                            t = sub.targets[0].id
                            if isinstance(sub.value, ast.Name) and (
                                    sub.value.id in ci.methods or sub.value.id in ci.aliases):
                                ci.aliases[t] = sub.value.id
                            else:
                                ci.attrs[t] = sub.value
                elif isinstance(node, (ast.Import, ast.ImportFrom)):
                    bind_import(node, m.bindings)
                elif isinstance(node, ast.Assign):
                    for t in node.targets:
                        for nm in _target_names(t):
                            m.bindings[nm] = ("value", node.value)
                elif isinstance(node, (ast.If, ast.Try, ast.For, ast.While, ast.With)):
                    for fld in ("body", "orelse", "finalbody"):
                        index_stmts(getattr(node, fld, []) or [])
                    for h in getattr(node, "handlers", []) or []:
                        index_stmts(h.body)

        index_stmts(m.tree.body)
        # module-level lambdas
        for sub in self._walk_scope(m.tree):
            if isinstance(sub, ast.Lambda):
                lq = "<lambda@%d:%d>" % (sub.lineno, sub.col_offset)
                lf = FunctionInfo(m, sub, lq, None, None)
                m.functions[lq] = lf
                m.lambdas[id(sub)] = lf

    @staticmethod
    def _walk_scope(node):
        """Nodes of `node`'s own scope: does not descend into nested function/class bodies
        (but yields the nested def nodes themselves)."""
        stack = list(ast.iter_child_nodes(node))
        while stack:
            n = stack.pop()
            yield n
            if isinstance(n, (ast.FunctionDef, ast.AsyncFunctionDef, ast.ClassDef, ast.Lambda)):
                continue
            stack.extend(ast.iter_child_nodes(n))

    def _expand_star(self, m, seen):
        if m.name in seen:
            return
        seen.add(m.name)
        for src in m.star_imports:
            sm = self.modules.get(src)
            if sm is None:
                continue
            self._expand_star(sm, seen)
            # `from m import *` binds the names listed in m.__all__ when it exists (a literal list/tuple of strings,
            # possibly extended with += / .append / .extend at module level), else every public name
            exported = None
            a = sm.bindings.get("__all__")
            if a is not None and a[0] == "value" and isinstance(a[1], (ast.List, ast.Tuple)) and all(
                    isinstance(e, ast.Constant) and isinstance(e.value, str) for e in a[1].elts):
                exported = {e.value for e in a[1].elts}
                for n in sm.tree.body:
                    if isinstance(n, ast.AugAssign) and isinstance(n.target, ast.Name) and n.target.id == "__all__" \
                            and isinstance(n.value, (ast.List, ast.Tuple)):
                        exported |= {e.value for e in n.value.elts if isinstance(e, ast.Constant) and isinstance(e.value, str)}
                    elif isinstance(n, ast.Expr) and isinstance(n.value, ast.Call) and isinstance(n.value.func, ast.Attribute) \
                            and isinstance(n.value.func.value, ast.Name) and n.value.func.value.id == "__all__":
                        for arg in n.value.args:
                            for e in ([arg] if isinstance(arg, ast.Constant) else getattr(arg, "elts", [])):
                                if isinstance(e, ast.Constant) and isinstance(e.value, str):
                                    exported.add(e.value)
            for k, v in sm.bindings.items():
                if k in m.bindings:
                    continue
                if (exported is not None and k in exported) or (exported is None and not k.startswith("_")):
                    m.bindings[k] = v

    # ------------------------------------------------------------------ queries
    def module(self, name):
        m = self.modules.get(name)
        if m is None:
            raise AnalysisError("anchor module %s not found" % name)
        return m

    def cls(self, modname, clsname):
        c = self.module(modname).classes.get(clsname)
        if c is None:
            raise AnalysisError("anchor class %s:%s not found" % (modname, clsname))
        return c

    def fn(self, modname, qual, required=True):
        m = self.module(modname) if required else self.modules.get(modname)
        f = m.functions.get(qual) if m else None
        if f is None and m is not None and "." in qual:
            cn, mn = qual.split(".", 1)
            ci = m.classes.get(cn)
            if ci is not None:
                f = self.lookup_method(ci, mn)
        if f is None and required:
            raise AnalysisError("anchor function %s:%s not found" % (modname, qual))
        return f

    def class_bases(self, ci):
        out = []
        for b in ci.base_names:
            nm = b.split(".")[-1]
            bd = ci.module.bindings.get(nm)
            if bd and bd[0] == "class":
                out.append(bd[1])
            elif bd and bd[0] == "attr":
                sm = self.modules.get(bd[1])
                if sm and bd[2] in sm.classes:
                    out.append(sm.classes[bd[2]])
        return out

    def lookup_method(self, ci, name, _depth=0):
        if _depth > 8:
            return None
        seen = 0
        while name in ci.aliases and seen < 8:
            name = ci.aliases[name]
            seen += 1
        if name in ci.methods:
            return ci.methods[name]
        for b in self.class_bases(ci):
            r = self.lookup_method(b, name, _depth + 1)
            if r:
                return r
        return None

    def all_functions(self, include_clients=False):
        for m in self.modules.values():
            yield from m.functions.values()
        if include_clients:
            for m in self.clients.values():
                yield from m.functions.values()

    def all_classes(self):
        for m in self.modules.values():
            yield from m.classes.values()

    def digests(self):
        return {m.relpath: m.digest for m in self.modules.values()}


def _target_names(t):
    if isinstance(t, ast.Name):
        return [t.id]
    if isinstance(t, (ast.Tuple, ast.List)):
        r = []
        for e in t.elts:
            r += _target_names(e)
        return r
    if isinstance(t, ast.Starred):
        return _target_names(t.value)
    return []


def target_names(t):
    return _target_names(t)


def enclosing_stmt(node):
    while node is not None and not isinstance(node, ast.stmt):
        node = getattr(node, "_parent", None)
    return node


def parents(node):
    node = getattr(node, "_parent", None)
    while node is not None:
        yield node
        node = getattr(node, "_parent", None)


def exec_order(root):
    """id(node) -> position in a depth-first, field-order walk of `root`: the order in which straight-line code is
    evaluated, independent of line numbers (inlined helper bodies keep the line numbers of the helper)."""
    order = {}

    def go(n):
        order[id(n)] = len(order)
        for c in ast.iter_child_nodes(n):
            go(c)
    go(root)
    return order


def precedes(root, a, b):
    o = exec_order(root)
    return o.get(id(a), -1) < o.get(id(b), -1)
