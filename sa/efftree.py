"""Emission-effect terms.

A term is a *sequence* (tuple) of items:
    ('ev', atom)                      atom: 'priv' | 'pub' | 'cons' | ('dyn', text) | ('rec', fq) | ('op?', name) | ('bk', name)
    ('alt', tag, tainted, A, B)       A, B terms
    ('loop', itertext, BODY)
    ('raise',) ('ret',) ('brk',) ('cont',)      terminators, only in tail position

An alternative whose arms may leave early (terminator in tail position) absorbs
whatever follows it (concat pushes the continuation into its arms), so for such an
alternative each arm describes the behaviour up to the exit of the function; an
alternative whose arms both fall through is simply followed by the continuation.
"""
END = ()
RAISE = (("raise",),)
RET = (("ret",),)
BRK = (("brk",),)
CONT = (("cont",),)
TERMS = ("raise", "ret", "brk", "cont")


def ev(atom):
    return (("ev", atom),)


def alt(tag, tainted, a, b):
    if a == b:
        return a
    return (("alt", tag, bool(tainted), a, b),)


def loop(it, body):
    if not body:
        return END
    return (("loop", it, body),)


def may_exit(s):
    """A ret/brk/cont terminator is reachable in tail position (the continuation is skipped but the
    run goes on elsewhere).  RAISE does not count: a raising path simply aborts."""
    if not s:
        return False
    last = s[-1]
    if last[0] in ("ret", "brk", "cont"):
        return True
    if last[0] == "alt":
        return may_exit(last[3]) or may_exit(last[4])
    return False


def falls_through(s):
    if not s:
        return True
    last = s[-1]
    if last[0] in TERMS:
        return False
    if last[0] == "alt":
        return falls_through(last[3]) or falls_through(last[4])
    return True


def concat(s, k):
    if not k:
        return s
    if not s:
        return k
    if not falls_through(s):
        return s
    last = s[-1]
    if last[0] == "alt" and (may_exit(last[3]) or may_exit(last[4])):
        return s[:-1] + alt(last[1], last[2], concat(last[3], k), concat(last[4], k))
    return s + k


def subst_leaf(s, frm, to):
    """Replace terminator `frm` (a 1-item term such as RAISE) wherever it occurs by term `to`."""
    f = frm[0]
    out = None
    for i, it in enumerate(s):
        new = None
        if it == f:
            new = to
        elif it[0] == "alt":
            a, b = subst_leaf(it[3], frm, to), subst_leaf(it[4], frm, to)
            if a is not it[3] or b is not it[4]:
                new = alt(it[1], it[2], a, b)
        elif it[0] == "loop":
            bd = subst_leaf(it[2], frm, to)
            if bd is not it[2]:
                new = loop(it[1], bd)
        if new is not None:
            if out is None:
                out = list(s[:i])
            out.extend(new)
        elif out is not None:
            out.append(it)
    return s if out is None else tuple(out)


def has_leaf(s, leaf):
    f = leaf[0]
    for it in s:
        if it == f:
            return True
        if it[0] == "alt" and (has_leaf(it[3], leaf) or has_leaf(it[4], leaf)):
            return True
        if it[0] == "loop" and has_leaf(it[2], leaf):
            return True
    return False


def has_events(s):
    for it in s:
        if it[0] == "ev":
            return True
        if it[0] == "alt" and (has_events(it[3]) or has_events(it[4])):
            return True
        if it[0] == "loop" and has_events(it[2]):
            return True
    return False


def always_raises(s):
    if not s:
        return False
    last = s[-1]
    if last[0] == "raise":
        return True
    if last[0] == "alt":
        return always_raises(last[3]) and always_raises(last[4])
    return False


def nf(s):
    """Normal form for comparing arms: an inner *tainted* alternative is replaced by a
    representative completing arm (every tainted alternative is checked on its own)."""
    out = ()
    for i, it in enumerate(s):
        if it[0] == "alt":
            a, b = nf(it[3]), nf(it[4])
            if it[2]:
                out = out + (b if always_raises(a) else a)
            else:
                out = out + alt(it[1], False, a, b)
        elif it[0] == "loop":
            out = out + loop(it[1], nf(it[2]))
        elif it[0] in ("ret",):
            pass   # returning == completing
        else:
            out = out + (it,)
    return out


def _cat(p, rest):
    return p if not falls_through(p) else p + rest


def eq_mod_raise(a, b, _depth=0):
    """Equality of completing behaviour; a path that raises does not complete (wildcard)."""
    if a == b:
        return True
    if always_raises(a) or always_raises(b):
        return True
    if _depth > 60:
        return False
    if not a or not b:
        s = a or b
        x = s[0]
        if x[0] == "alt":
            return eq_mod_raise(_cat(x[3], s[1:]), (), _depth + 1) and eq_mod_raise(_cat(x[4], s[1:]), (), _depth + 1)
        return False
    x, y = a[0], b[0]
    if x[0] == "alt" and y[0] == "alt" and x[1] == y[1]:
        return eq_mod_raise(_cat(x[3], a[1:]), _cat(y[3], b[1:]), _depth + 1) and \
            eq_mod_raise(_cat(x[4], a[1:]), _cat(y[4], b[1:]), _depth + 1)
    if x[0] == "alt":
        return eq_mod_raise(_cat(x[3], a[1:]), b, _depth + 1) and eq_mod_raise(_cat(x[4], a[1:]), b, _depth + 1)
    if y[0] == "alt":
        return eq_mod_raise(a, _cat(y[3], b[1:]), _depth + 1) and eq_mod_raise(a, _cat(y[4], b[1:]), _depth + 1)
    if x[0] != y[0]:
        return False
    if x[0] == "ev":
        return x[1] == y[1] and eq_mod_raise(a[1:], b[1:], _depth + 1)
    if x[0] == "loop":
        return x[1] == y[1] and eq_mod_raise(x[2], y[2], _depth + 1) and eq_mod_raise(a[1:], b[1:], _depth + 1)
    return x == y and eq_mod_raise(a[1:], b[1:], _depth + 1)


def render(s, depth=0):
    """Compact rendering, e.g.  priv·cons·Loop(range(bits))[priv·cons]"""
    if depth > 10:
        return "…"
    parts = []
    for it in s:
        t = it[0]
        if t == "ev":
            a = it[1]
            parts.append(a if isinstance(a, str) else "%s(%s)" % (a[0], a[1]))
        elif t == "alt":
            tag = it[1][-1] if isinstance(it[1], tuple) else it[1]
            parts.append("Alt%s{%s}[%s | %s]" % ("!" if it[2] else "", tag,
                                                 render(it[3], depth + 1) or "ε", render(it[4], depth + 1) or "ε"))
        elif t == "loop":
            parts.append("Loop(%s)[%s]" % (it[1], render(it[2], depth + 1)))
        else:
            parts.append(t.upper())
    return "·".join(parts)


def atoms(s, acc=None):
    if acc is None:
        acc = set()
    for it in s:
        if it[0] == "ev":
            acc.add(it[1])
        elif it[0] == "alt":
            atoms(it[3], acc)
            atoms(it[4], acc)
        elif it[0] == "loop":
            atoms(it[2], acc)
    return acc


def size(s):
    n = 0
    for it in s:
        n += 1
        if it[0] == "alt":
            n += size(it[3]) + size(it[4])
        elif it[0] == "loop":
            n += size(it[2])
    return n
