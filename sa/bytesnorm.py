"""Functional byte building -> the imperative buffer form the C10 stream interpreter reads.

A serializer may collect the pieces of a section before writing them (so that the declared length can be `len(section)`):

    def enc(lc):                                   pieces in a list, joined at the end
        ret = [len(lc).to_bytes(4, "little")]
        for k, v in lc.items():
            ret.append(k.to_bytes(4, "little")); ret.append(v.to_bytes(32, "little"))
        return b"".join(ret)
    section = b"".join([enc(x.lc) for c in cons for x in (c[0], c[1], c[2])])

`normalise(fnode)` returns a clone in which
  N1  a local list of pieces (bound once to a list literal, otherwise only `.append`ed to and joined with b"") is a bytearray:
      `L = bytearray(); L += e1; ...`, `L.append(E)` -> `L += E`, `b"".join(L)` -> `bytes(L)`
  N2  `X = b"".join(<comprehension>)` is `X = bytearray()` followed by the nested loops with body `X += ELT`
  N3  `T += enc(args)` with `enc` a nested function of the shape `buf = bytearray(); BODY; return bytes(buf)` is BODY with
      buf := T, the parameters replaced by the (side-effect free) arguments and the other locals of `enc` renamed apart
All three are equalities of the byte string produced; nothing else is touched.
"""
import ast

from .loader import clone, norm


def _is_join(e):
    return isinstance(e, ast.Call) and isinstance(e.func, ast.Attribute) and e.func.attr == "join" \
        and isinstance(e.func.value, ast.Constant) and e.func.value.value == b"" and len(e.args) == 1 and not e.keywords


def _own_nodes(f):
    """nodes of f's body outside nested function definitions"""
    out = []
    stack = list(f.body)
    while stack:
        n = stack.pop()
        out.append(n)
        for c in ast.iter_child_nodes(n):
            if not isinstance(c, (ast.FunctionDef, ast.Lambda, ast.ClassDef)):
                stack.append(c)
    return out


def _piece_lists(f):
    nodes = _own_nodes(f)
    binds = {}
    for n in nodes:
        if isinstance(n, ast.Assign) and len(n.targets) == 1 and isinstance(n.targets[0], ast.Name):
            binds.setdefault(n.targets[0].id, []).append(n)
    for name, asg in binds.items():
        if len(asg) != 1 or not isinstance(asg[0].value, ast.List) or asg[0] not in f.body:
            continue
        uses = [n for n in nodes if isinstance(n, ast.Name) and n.id == name and isinstance(n.ctx, ast.Load)]
        ok = bool(uses)
        joined = False
        for u in uses:
            p = getattr(u, "_bn_parent", None)
            if isinstance(p, ast.Attribute) and p.attr == "append" and isinstance(getattr(p, "_bn_parent", None), ast.Call) \
                    and isinstance(getattr(p._bn_parent, "_bn_parent", None), ast.Expr) and len(p._bn_parent.args) == 1:
                continue
            if isinstance(p, ast.Call) and _is_join(p) and p.args[0] is u:
                joined = True
                continue
            ok = False
        if not ok or not joined:
            continue

        class _T(ast.NodeTransformer):
            def visit_FunctionDef(self, n):
                return n if n is not f else self.generic_visit(n)

            def visit_Expr(self, n):
                c = n.value
                if isinstance(c, ast.Call) and isinstance(c.func, ast.Attribute) and c.func.attr == "append" \
                        and isinstance(c.func.value, ast.Name) and c.func.value.id == name and len(c.args) == 1:
                    return ast.copy_location(ast.AugAssign(target=ast.Name(id=name, ctx=ast.Store()), op=ast.Add(), value=c.args[0]), n)
                return self.generic_visit(n)

            def visit_Call(self, n):
                self.generic_visit(n)
                if _is_join(n) and isinstance(n.args[0], ast.Name) and n.args[0].id == name:
                    return ast.copy_location(ast.Call(func=ast.Name(id="bytes", ctx=ast.Load()), args=[n.args[0]], keywords=[]), n)
                return n
        _T().visit(f)
        i = f.body.index(asg[0])
        init = [ast.copy_location(ast.Assign(targets=[ast.Name(id=name, ctx=ast.Store())],
                                             value=ast.Call(func=ast.Name(id="bytearray", ctx=ast.Load()), args=[], keywords=[])), asg[0])]
        for e in asg[0].value.elts:
            init.append(ast.copy_location(ast.AugAssign(target=ast.Name(id=name, ctx=ast.Store()), op=ast.Add(), value=e), asg[0]))
        f.body[i:i + 1] = init
        ast.fix_missing_locations(f)
        _set_parents(f)


def _set_parents(root):
    for n in ast.walk(root):
        for c in ast.iter_child_nodes(n):
            c._bn_parent = n


def _joined_comprehensions(f):
    def rewrite(stmts):
        out = []
        for s in stmts:
            for fld in ("body", "orelse", "finalbody"):
                if isinstance(getattr(s, fld, None), list) and not isinstance(s, (ast.FunctionDef, ast.ClassDef)):
                    setattr(s, fld, rewrite(getattr(s, fld)))
            if isinstance(s, ast.Assign) and len(s.targets) == 1 and isinstance(s.targets[0], ast.Name) and _is_join(s.value) \
                    and isinstance(s.value.args[0], (ast.ListComp, ast.GeneratorExp)) and not any(g.ifs or g.is_async for g in s.value.args[0].generators):
                name = s.targets[0].id
                comp = s.value.args[0]
                inner = [ast.copy_location(ast.AugAssign(target=ast.Name(id=name, ctx=ast.Store()), op=ast.Add(), value=comp.elt), s)]
                for g in reversed(comp.generators):
                    inner = [ast.copy_location(ast.For(target=g.target, iter=g.iter, body=inner, orelse=[]), s)]
                out.append(ast.copy_location(ast.Assign(targets=[ast.Name(id=name, ctx=ast.Store())], value=ast.Call(
                    func=ast.Name(id="bytearray", ctx=ast.Load()), args=[], keywords=[])), s))
                out += inner
            else:
                out.append(s)
        return out
    f.body = rewrite(f.body)
    ast.fix_missing_locations(f)


def _encoder_shape(fn):
    """(buffer name, body statements) of `def enc(p..): buf = bytearray(); BODY; return bytes(buf)`"""
    body = [s for s in fn.body if not (isinstance(s, ast.Expr) and isinstance(s.value, ast.Constant))]
    if len(body) < 2 or fn.args.vararg or fn.args.kwarg or fn.args.kwonlyargs or fn.args.defaults:
        return None
    a, r = body[0], body[-1]
    if not (isinstance(a, ast.Assign) and len(a.targets) == 1 and isinstance(a.targets[0], ast.Name) and norm(a.value) == "bytearray()"):
        return None
    buf = a.targets[0].id
    if not (isinstance(r, ast.Return) and r.value is not None and norm(r.value) in ("bytes(%s)" % buf, buf)):
        return None
    mid = body[1:-1]
    if any(isinstance(x, (ast.Return, ast.Yield, ast.YieldFrom, ast.Global, ast.Nonlocal)) for s in mid for x in ast.walk(s)):
        return None
    return buf, mid


class _Names(ast.NodeTransformer):
    def __init__(self, mapping):
        self.mapping = mapping

    def visit_Name(self, n):
        if n.id in self.mapping:
            m = self.mapping[n.id]
            if isinstance(m, str):
                return ast.copy_location(ast.Name(id=m, ctx=n.ctx), n)
            if isinstance(n.ctx, ast.Load):
                return ast.copy_location(clone(m), n)
        return n


def _inline_encoders(f, counter):
    enc = {}
    for s in f.body:
        if isinstance(s, ast.FunctionDef):
            sh = _encoder_shape(s)
            if sh is not None:
                enc[s.name] = (s, sh)
    if not enc:
        return

    def pure(e):
        return isinstance(e, (ast.Name, ast.Constant)) or (isinstance(e, ast.Attribute) and pure(e.value)) or (
            isinstance(e, ast.Subscript) and pure(e.value) and pure(e.slice))

    def rewrite(stmts):
        out = []
        for s in stmts:
            for fld in ("body", "orelse", "finalbody"):
                if isinstance(getattr(s, fld, None), list) and not isinstance(s, (ast.FunctionDef, ast.ClassDef)):
                    setattr(s, fld, rewrite(getattr(s, fld)))
            c = s.value if isinstance(s, ast.AugAssign) and isinstance(s.op, ast.Add) and isinstance(s.target, ast.Name) else None
            if isinstance(c, ast.Call) and isinstance(c.func, ast.Name) and c.func.id in enc and not c.keywords \
                    and len(c.args) == len(enc[c.func.id][0].args.args) and all(pure(a) for a in c.args):
                fn, (buf, mid) = enc[c.func.id]
                counter[0] += 1
                params = [a.arg for a in fn.args.args]
                local = set()
                for st in mid:
                    for x in ast.walk(st):
                        if isinstance(x, ast.Name) and isinstance(x.ctx, ast.Store) and x.id != buf and x.id not in params:
                            local.add(x.id)
                mapping = {p: a for p, a in zip(params, c.args)}
                mapping[buf] = s.target.id
                for nm in local:
                    mapping[nm] = "%s_e%d" % (nm, counter[0])
                for st in mid:
                    st2 = _Names(mapping).visit(clone(st))
                    ast.fix_missing_locations(st2)
                    out.append(st2)
            else:
                out.append(s)
        return out
    f.body = rewrite(f.body)
    ast.fix_missing_locations(f)


def normalise(fnode):
    if not any(_is_join(n) for n in ast.walk(fnode)):
        return fnode
    fn = clone(fnode)
    _set_parents(fn)
    for f in [n for n in ast.walk(fn) if isinstance(n, ast.FunctionDef)]:
        _piece_lists(f)
    for f in [n for n in ast.walk(fn) if isinstance(n, ast.FunctionDef)]:
        _joined_comprehensions(f)
    counter = [0]
    _inline_encoders(fn, counter)
    # encoders that are no longer called are dropped (their writes were transplanted)
    called = {n.func.id for n in ast.walk(fn) if isinstance(n, ast.Call) and isinstance(n.func, ast.Name)}
    fn.body = [s for s in fn.body if not (isinstance(s, ast.FunctionDef) and _encoder_shape(s) is not None and s.name not in called)]
    ast.fix_missing_locations(fn)
    return fn
