"""Lemma-based canonical form of one-hot index selectors.

The library's own way to turn a secret index X into a selector over the positions of a list A is

    (A)   S = [X == ix for ix in range(len(A))] ;  sum(S).assert_eq(1)

and the rules of C01/C02/C06/C07/C09/C15 are written against it.  Two cheaper designs state the same thing; when a block
matches ALL hypotheses of its lemma it is replaced by (A), otherwise it is left alone (and the rules then judge the code as
written, which in practice means they report it).  The lemmas are listed in DESIGN.md as trusted facts.

    (B)   complement-last:                      S  = [X == ix for ix in range(N - 1)]          N == len(A)
                                                L  = ONE - sum(S)                              ONE: the constant one
                                                add_constraint(L, X - (N - 1), ZERO)           guarded emission
                                                selector = S + [LinCombBool(L, False)]         (or S.append(..))
                                                a dominating refusal of N == 0
          Each equality test is forced to [X == ix] (C02), so at most one is 1 and L is a bit; L = 1 forces X = N-1; L = 0 means
          exactly one test holds.  Hence selector = unit vector of X and X in [0, N); for X outside, L = 1 and the constraint
          fails.  The honest witness satisfies the constraint for every X in range.  N = 0 would accept X = -1, hence the refusal.

    (C)   witness bits:                         B  = [PrivVal(1 if X.value == ix else 0) for ix in range(N)]
                                                for b in B: add_constraint[_unsafe](b, 1 - b, ZERO)
                                                sum(B).assert_eq(1)
                                                lin_comb(range(N), B).assert_eq(X)
                                                selector = [LinCombBool(b, False) for b in B]
          Bits summing to 1 form a unit vector e_k; sum(ix * b_ix) = k = X.  The hints are the unit vector of X for X in range
          (booleanity holds for the hints whatever X is, so it may be emitted unguarded).
"""
import ast

from .loader import clone, norm
from .poly import P, poly_of


def _lists(fnode):
    """every statement list of the function (nested function bodies excluded)"""
    out = [fnode.body]
    stack = list(fnode.body)
    while stack:
        s = stack.pop()
        if isinstance(s, (ast.FunctionDef, ast.ClassDef, ast.Lambda)):
            continue
        for fld in ("body", "orelse", "finalbody"):
            v = getattr(s, fld, None)
            if isinstance(v, list) and v and isinstance(v[0], ast.stmt):
                out.append(v)
                stack.extend(v)
        for h in getattr(s, "handlers", []) or []:
            out.append(h.body)
            stack.extend(h.body)
    return out


def _uses(name, node):
    return any(isinstance(x, ast.Name) and x.id == name for x in ast.walk(node))


def _eq_comp(s):
    """(S, X text, ix, range arg) of  S = [X == ix for ix in range(R)]"""
    if not (isinstance(s, ast.Assign) and len(s.targets) == 1 and isinstance(s.targets[0], ast.Name) and isinstance(s.value, ast.ListComp)):
        return None
    c = s.value
    if len(c.generators) != 1 or c.generators[0].ifs or not isinstance(c.generators[0].target, ast.Name):
        return None
    g = c.generators[0]
    if not (isinstance(g.iter, ast.Call) and norm(g.iter.func) == "range" and len(g.iter.args) == 1):
        return None
    e = c.elt
    if not (isinstance(e, ast.Compare) and len(e.ops) == 1 and isinstance(e.ops[0], ast.Eq)):
        return None
    ix = g.target.id
    a, b = e.left, e.comparators[0]
    if isinstance(b, ast.Name) and b.id == ix and isinstance(a, ast.Name):
        x = a
    elif isinstance(a, ast.Name) and a.id == ix and isinstance(b, ast.Name):
        x = b
    else:
        return None
    return s.targets[0].id, x.id, ix, g.iter.args[0]


def _len_poly(fnode, e):
    """(poly over the symbol LEN, text of the list whose length it is) for an integer expression built from one len(A)"""
    from .flatten import resolve_locals
    r = resolve_locals(fnode, e)
    lens = {norm(c.args[0]) for c in ast.walk(r) if isinstance(c, ast.Call) and norm(c.func) == "len" and len(c.args) == 1}
    if len(lens) != 1:
        return None, None
    a = lens.pop()
    p = poly_of(r, {"len(%s)" % a: P.sym("LEN")}, strict=True)
    return p, a


def _refuses_empty(fnode, stmts, upto, a):
    from .flatten import resolve_locals
    texts = {"len(%s) == 0" % a, "0 == len(%s)" % a, "not %s" % a, "len(%s) < 1" % a, "len(%s) <= 0" % a, "not len(%s)" % a,
             "1 > len(%s)" % a, "0 >= len(%s)" % a}
    for s in stmts[:upto]:
        if isinstance(s, ast.If) and s.body and isinstance(s.body[-1], ast.Raise) and not s.orelse \
                and norm(resolve_locals(fnode, s.test)) in texts:
            return True
    return False


# LinComb.ONE is the guard wire inside a lazy branch - the same wire every integer constant is converted to there (the `1` of
# `sum(S).assert_eq(1)` included): 1 whenever the branch is taken, and in a branch that is not taken every emission is guarded
ONES = ("LinComb.ONE_SAFE", "ConstVal(1)", "1", "runtime.LinComb.ONE_SAFE", "LinComb.ONE", "runtime.LinComb.ONE")
ZEROS = ("LinComb.ZERO", "runtime.LinComb.ZERO", "ConstVal(0)")


def _design_b(fnode, stmts):
    for i, s in enumerate(stmts):
        m = _eq_comp(s)
        if m is None:
            continue
        S, X, ix, R = m
        pr, a = _len_poly(fnode, R)
        if pr is None or pr != P.sym("LEN") - 1:
            continue
        rest = stmts[i + 1:]
        j = k = mm = None
        L = None
        for q, t in enumerate(rest):
            if L is None and isinstance(t, ast.Assign) and len(t.targets) == 1 and isinstance(t.targets[0], ast.Name):
                env = {"sum(%s)" % S: P.sym("SUM")}
                for o in ONES:
                    env[o] = P.const(1)
                p = poly_of(t.value, env, strict=True)
                if p is not None and p == 1 - P.sym("SUM"):
                    L, j = t.targets[0].id, q
                    continue
            if L is not None and k is None and isinstance(t, ast.Expr) and isinstance(t.value, ast.Call) \
                    and norm(t.value.func).split(".")[-1] == "add_constraint" and len(t.value.args) == 3 and not t.value.keywords \
                    and norm(t.value.args[2]) in ZEROS:
                u, v = t.value.args[0], t.value.args[1]
                for l_, o_ in ((u, v), (v, u)):
                    if isinstance(l_, ast.Name) and l_.id == L:
                        # the other factor is X - (LEN - 1)
                        from .flatten import resolve_locals
                        ro = resolve_locals(fnode, o_, keep=(X,))
                        pq = poly_of(ro, {"len(%s)" % a: P.sym("LEN"), X: P.sym("X")}, strict=True)
                        if pq is not None and pq == P.sym("X") - P.sym("LEN") + 1:
                            k = q
                if k == q:
                    continue
            if L is not None and k is not None and mm is None:
                wrapped = "LinCombBool(%s, False)" % L
                if isinstance(t, ast.Expr) and isinstance(t.value, ast.Call) and norm(t.value.func) == "%s.append" % S \
                        and len(t.value.args) == 1 and norm(t.value.args[0]) == wrapped:
                    mm = (q, "append")
                    break
                tv = t.value if isinstance(t, (ast.Assign, ast.Return)) else None
                if tv is not None and norm(tv) == "%s + [%s]" % (S, wrapped):
                    mm = (q, "concat")
                    break
            # nothing else may touch S or L before the selector is complete
            if _uses(S, t) or (L is not None and _uses(L, t)):
                break
        if L is None or k is None or mm is None:
            continue
        if not _refuses_empty(fnode, stmts, i, a):
            continue
        # rewrite
        new_comp = clone(s)
        new_comp.value.generators[0].iter.args[0] = ast.parse("len(%s)" % a, mode="eval").body
        chk = ast.Expr(value=ast.parse("sum(%s).assert_eq(1)" % S, mode="eval").body)
        out = list(stmts[:i]) + [new_comp]
        for q, t in enumerate(rest):
            if q in (j, k):
                continue
            if q == mm[0]:
                out.append(ast.copy_location(chk, t))
                if mm[1] == "concat" and not (isinstance(t, ast.Assign) and norm(t.targets[0]) == S):
                    t2 = clone(t)
                    t2.value = ast.Name(id=S, ctx=ast.Load())
                    out.append(t2)
                continue
            out.append(t)
        for o in out:
            ast.fix_missing_locations(ast.copy_location(o, s) if not hasattr(o, "lineno") else o)
        stmts[:] = out
        return "B"
    return None


def _design_c(fnode, stmts):
    for i, s in enumerate(stmts):
        if not (isinstance(s, ast.Assign) and len(s.targets) == 1 and isinstance(s.targets[0], ast.Name) and isinstance(s.value, ast.ListComp)):
            continue
        c = s.value
        if len(c.generators) != 1 or c.generators[0].ifs or not isinstance(c.generators[0].target, ast.Name):
            continue
        g = c.generators[0]
        ix = g.target.id
        if not (isinstance(g.iter, ast.Call) and norm(g.iter.func) == "range" and len(g.iter.args) == 1):
            continue
        pr, a = _len_poly(fnode, g.iter.args[0])
        if pr is None or pr != P.sym("LEN"):
            continue
        e = c.elt
        if not (isinstance(e, ast.Call) and norm(e.func).split(".")[-1] in ("PrivVal", "PrivValBool") and len(e.args) == 1 and not e.keywords):
            continue
        # PrivValBool allocates the witness WITH its booleanity constraint and hands back the LinCombBool: hypothesis "bool" holds
        # by construction and the list itself is the selector
        selfbool = norm(e.func).split(".")[-1] == "PrivValBool"
        h = norm(e.args[0])
        X = None
        for x in ast.walk(e.args[0]):
            if isinstance(x, ast.Attribute) and x.attr == "value" and isinstance(x.value, ast.Name):
                X = x.value.id
        if X is None or h not in ("1 if %s.value == %s else 0" % (X, ix), "1 if %s == %s.value else 0" % (ix, X),
                                  "int(%s.value == %s)" % (X, ix), "int(%s == %s.value)" % (ix, X),
                                  "0 if %s.value != %s else 1" % (X, ix)):
            continue
        B = s.targets[0].id
        rest = stmts[i + 1:]
        got = {}
        if selfbool:
            got["bool"] = -1
        for q, t in enumerate(rest):
            if "bool" not in got and isinstance(t, ast.For) and isinstance(t.target, ast.Name) and norm(t.iter) == B and not t.orelse \
                    and len(t.body) == 1 and isinstance(t.body[0], ast.Expr) and isinstance(t.body[0].value, ast.Call):
                cc = t.body[0].value
                b = t.target.id
                if norm(cc.func).split(".")[-1] in ("add_constraint", "add_constraint_unsafe") and len(cc.args) == 3 and not cc.keywords \
                        and norm(cc.args[2]) in ZEROS and {norm(cc.args[0]), norm(cc.args[1])} in (
                            {b, "1 - %s" % b}, {b, "%s - 1" % b}, {b, "LinComb.ONE_SAFE - %s" % b}):
                    got["bool"] = q
                    continue
            if "sum" not in got and isinstance(t, ast.Expr) and norm(t.value) == "sum(%s).assert_eq(1)" % B:
                got["sum"] = q
                continue
            if "tie" not in got and isinstance(t, ast.Expr) and isinstance(t.value, ast.Call) and isinstance(t.value.func, ast.Attribute) \
                    and t.value.func.attr == "assert_eq" and len(t.value.args) == 1:
                l_, r_ = t.value.func.value, t.value.args[0]
                for lc_, x_ in ((l_, r_), (r_, l_)):
                    if isinstance(x_, ast.Name) and x_.id == X and isinstance(lc_, ast.Call) and norm(lc_.func).split(".")[-1] == "lin_comb" \
                            and len(lc_.args) == 2:
                        args = list(lc_.args)
                        rng = [z for z in args if isinstance(z, ast.Call) and norm(z.func) == "range" and len(z.args) == 1]
                        oth = [z for z in args if isinstance(z, ast.Name) and z.id == B]
                        if len(rng) == 1 and len(oth) == 1:
                            pz, a3 = _len_poly(fnode, rng[0].args[0])
                            if pz is not None and pz == P.sym("LEN") and a3 == a:
                                got["tie"] = q
                if got.get("tie") == q:
                    continue
            if len(got) == 3 and selfbool:
                break
            if len(got) == 3:
                tv = t.value if isinstance(t, (ast.Assign, ast.Return)) else None
                if isinstance(tv, ast.ListComp) and len(tv.generators) == 1 and not tv.generators[0].ifs \
                        and norm(tv.generators[0].iter) == B and isinstance(tv.generators[0].target, ast.Name) \
                        and norm(tv.elt) == "LinCombBool(%s, False)" % tv.generators[0].target.id:
                    got["sel"] = q
                    break
            if _uses(B, t):
                break
        if selfbool and len(got) == 3:
            # B = [X == ix ...] in place; the sum check stays where it is, the tie to the index is implied by the equality tests
            s2 = ast.copy_location(ast.Assign(targets=[ast.Name(id=B, ctx=ast.Store())],
                                              value=ast.parse("[%s == %s for %s in range(len(%s))]" % (X, ix, ix, a), mode="eval").body), s)
            out = list(stmts[:i]) + [s2] + [u for q, u in enumerate(rest) if q != got["tie"]]
            for o in out:
                ast.fix_missing_locations(o)
            stmts[:] = out
            return "C"
        if len(got) != 4:
            continue
        t = rest[got["sel"]]
        S = t.targets[0].id if isinstance(t, ast.Assign) and isinstance(t.targets[0], ast.Name) else "_selector_%d" % getattr(s, "lineno", 0)
        comp = ast.Assign(targets=[ast.Name(id=S, ctx=ast.Store())],
                          value=ast.parse("[%s == %s for %s in range(len(%s))]" % (X, ix, ix, a), mode="eval").body)
        chk = ast.Expr(value=ast.parse("sum(%s).assert_eq(1)" % S, mode="eval").body)
        out = list(stmts[:i])
        for q, u in enumerate(rest):
            if q in (got["bool"], got["sum"], got["tie"]):
                continue
            if q == got["sel"]:
                out.append(ast.copy_location(comp, s))
                out.append(ast.copy_location(chk, u))
                if isinstance(u, ast.Return):
                    out.append(ast.copy_location(ast.Return(value=ast.Name(id=S, ctx=ast.Load())), u))
                continue
            out.append(u)
        for o in out:
            ast.fix_missing_locations(o)
        stmts[:] = out
        return "C"
    return None


def _design_e(fnode, stmts):
    """(E)   annihilated witnesses:               B  = [PrivVal(1 if X.value == ix else 0) for ix in range(N)]      N == len(A)
                                                for j in range(N): add_constraint[_unsafe](B[j], X - j, ZERO)
                                                sum(B).assert_eq(1)
                                                selector = [LinCombBool(b, False) for b in B]
          B[j] * (X - j) = 0 forces B[j] = 0 wherever j != X; the sum then forces X into range and B[X] = 1: the unit vector of X.
          The hints satisfy every product whatever X is (so the products may be emitted unguarded)."""
    for i, s in enumerate(stmts):
        if not (isinstance(s, ast.Assign) and len(s.targets) == 1 and isinstance(s.targets[0], ast.Name) and isinstance(s.value, ast.ListComp)):
            continue
        c = s.value
        if len(c.generators) != 1 or c.generators[0].ifs or not isinstance(c.generators[0].target, ast.Name):
            continue
        g = c.generators[0]
        ix = g.target.id
        if not (isinstance(g.iter, ast.Call) and norm(g.iter.func) == "range" and len(g.iter.args) == 1):
            continue
        pr, a = _len_poly(fnode, g.iter.args[0])
        if pr is None or pr != P.sym("LEN"):
            continue
        e = c.elt
        if not (isinstance(e, ast.Call) and norm(e.func) == "PrivVal" and len(e.args) == 1 and not e.keywords):
            continue
        h = norm(e.args[0])
        X = None
        for x in ast.walk(e.args[0]):
            if isinstance(x, ast.Attribute) and x.attr == "value" and isinstance(x.value, ast.Name):
                X = x.value.id
        if X is None or h not in ("1 if %s.value == %s else 0" % (X, ix), "1 if %s == %s.value else 0" % (ix, X),
                                  "int(%s.value == %s)" % (X, ix), "int(%s == %s.value)" % (ix, X)):
            continue
        B = s.targets[0].id
        rest = stmts[i + 1:]
        got = {}
        for q, t in enumerate(rest):
            if "prod" not in got and isinstance(t, ast.For) and isinstance(t.target, ast.Name) and not t.orelse and len(t.body) == 1 \
                    and isinstance(t.iter, ast.Call) and norm(t.iter.func) == "range" and len(t.iter.args) == 1 \
                    and isinstance(t.body[0], ast.Expr) and isinstance(t.body[0].value, ast.Call):
                pz, a2 = _len_poly(fnode, t.iter.args[0])
                cc = t.body[0].value
                j = t.target.id
                if pz is not None and pz == P.sym("LEN") and a2 == a and norm(cc.func).split(".")[-1] in ("add_constraint", "add_constraint_unsafe") \
                        and len(cc.args) == 3 and not cc.keywords and norm(cc.args[2]) in ZEROS:
                    two = {norm(cc.args[0]), norm(cc.args[1])}
                    if two in ({"%s[%s]" % (B, j), "%s - %s" % (X, j)}, {"%s[%s]" % (B, j), "%s - %s" % (j, X)}):
                        got["prod"] = q
                        continue
            if "sum" not in got and isinstance(t, ast.Expr) and norm(t.value) == "sum(%s).assert_eq(1)" % B:
                got["sum"] = q
                continue
            if len(got) == 2:
                tv = t.value if isinstance(t, (ast.Assign, ast.Return)) else None
                if isinstance(tv, ast.ListComp) and len(tv.generators) == 1 and not tv.generators[0].ifs \
                        and norm(tv.generators[0].iter) == B and isinstance(tv.generators[0].target, ast.Name) \
                        and norm(tv.elt) == "LinCombBool(%s, False)" % tv.generators[0].target.id:
                    got["sel"] = q
                    break
            if _uses(B, t):
                break
        if len(got) != 3:
            continue
        t = rest[got["sel"]]
        S = t.targets[0].id if isinstance(t, ast.Assign) and isinstance(t.targets[0], ast.Name) else "_selector_%d" % getattr(s, "lineno", 0)
        comp = ast.Assign(targets=[ast.Name(id=S, ctx=ast.Store())],
                          value=ast.parse("[%s == %s for %s in range(len(%s))]" % (X, ix, ix, a), mode="eval").body)
        chk = ast.Expr(value=ast.parse("sum(%s).assert_eq(1)" % S, mode="eval").body)
        out = list(stmts[:i])
        for q, u in enumerate(rest):
            if q in (got["prod"], got["sum"]):
                continue
            if q == got["sel"]:
                out.append(ast.copy_location(comp, s))
                out.append(ast.copy_location(chk, u))
                if isinstance(u, ast.Return):
                    out.append(ast.copy_location(ast.Return(value=ast.Name(id=S, ctx=ast.Load())), u))
                continue
            out.append(u)
        for o in out:
            ast.fix_missing_locations(o)
        stmts[:] = out
        return "E"
    return None


def _unit_hint_lists(stmts):
    """H = [0] * N ; if 0 <= V < N: H[V] = 1 ; B = [F(h) for h in H]     (H not used otherwise)
       is  B = [F(1 if V == ix else 0) for ix in range(N)]: the list H is the unit vector of V when V is in range and all zeros
       otherwise, which is what the conditional expression says position by position."""
    for i in range(len(stmts) - 2):
        a, b, c = stmts[i], stmts[i + 1], stmts[i + 2]
        if not (isinstance(a, ast.Assign) and len(a.targets) == 1 and isinstance(a.targets[0], ast.Name) and isinstance(a.value, ast.BinOp)
                and isinstance(a.value.op, ast.Mult)):
            continue
        H = a.targets[0].id
        l_, r_ = a.value.left, a.value.right
        if norm(l_) == "[0]":
            N = r_
        elif norm(r_) == "[0]":
            N = l_
        else:
            continue
        if not (isinstance(b, ast.If) and not b.orelse and len(b.body) == 1 and isinstance(b.body[0], ast.Assign) and len(b.body[0].targets) == 1
                and isinstance(b.body[0].targets[0], ast.Subscript) and norm(b.body[0].targets[0].value) == H and norm(b.body[0].value) == "1"):
            continue
        V = b.body[0].targets[0].slice
        t = norm(b.test).replace(" ", "")
        v, n = norm(V).replace(" ", ""), norm(N).replace(" ", "")
        if t not in ("0<=%s<%s" % (v, n), "%s>=0and%s<%s" % (v, v, n), "0<=%sand%s<%s" % (v, v, n), "%s<%sand%s>=0" % (v, n, v)):
            continue
        if not (isinstance(c, ast.Assign) and isinstance(c.value, ast.ListComp) and len(c.value.generators) == 1 and not c.value.generators[0].ifs
                and norm(c.value.generators[0].iter) == H and isinstance(c.value.generators[0].target, ast.Name)):
            continue
        if any(_uses(H, u) for u in stmts[i + 3:]):
            continue
        h = c.value.generators[0].target.id
        ix = "ix_%d" % getattr(a, "lineno", 0)

        class _R(ast.NodeTransformer):
            def visit_Name(self, nd):
                if nd.id == h and isinstance(nd.ctx, ast.Load):
                    return ast.copy_location(ast.parse("1 if %s == %s else 0" % (norm(V), ix), mode="eval").body, nd)
                return nd
        elt = _R().visit(clone(c.value.elt))
        comp = ast.ListComp(elt=elt, generators=[ast.comprehension(target=ast.Name(id=ix, ctx=ast.Store()),
                                                                  iter=ast.parse("range(%s)" % norm(N), mode="eval").body, ifs=[], is_async=0)])
        new = ast.copy_location(ast.Assign(targets=c.targets, value=comp), c)
        ast.fix_missing_locations(new)
        stmts[i:i + 3] = [new]
        return True
    return False


def canon_selector_designs(fnode):
    """rewrite blocks matching lemma (B) / (C) into the library form (A); returns the list of lemmas applied"""
    txt = None
    applied = []
    for lst in _lists(fnode):
        while _unit_hint_lists(lst):
            pass
    for _ in range(4):
        hit = None
        for lst in _lists(fnode):
            if not any(isinstance(s, ast.Assign) and isinstance(s.value, ast.ListComp) for s in lst):
                continue
            hit = _design_b(fnode, lst) or _design_c(fnode, lst) or _design_e(fnode, lst)
            if hit:
                applied.append(hit)
                break
        if not hit:
            break
    if applied:
        fnode._selector_lemmas = getattr(fnode, "_selector_lemmas", []) + applied
    return applied
