"""Abstract interpreter: operand kinds x taint x emission-effect trees, context sensitive.

One activation = (function, abstract arguments).  Statements are interpreted in order
(flow sensitive, environments joined at merges); every expression yields (effect tree,
abstract value).  Calls to functions of the package are inlined through memoised
summaries; operators are dispatched on operand kinds to the dunder Python would call.

By-products recorded for the rules:
  * tainted_alts      every branch whose condition depends on a `.value` (per context)
  * raise_paths       for each `raise` statement: the path conditions under which it is reached
  * lc_taint          places where a tainted Python number flows into backend-LC arithmetic
  * tainted_loops     loops/comprehensions whose iteration space is value-dependent
  * calls             kind-aware call edges
"""
import ast

from .efftree import (END, RAISE, RET, BRK, CONT, ev, alt, loop, concat, subst_leaf, has_events,
                      falls_through, has_leaf as _has_leaf)
from .kinds import (shape_tainted, V, Closure, NOCONST, INTLIKE, UNK, CLASS_KIND, KIND_CLASS, BUILTIN_TYPE_KIND,
                    join, unknown, const, listof)
from .loader import norm, target_names
from .absexpr import ExprMixin

MAX_DEPTH = 40
# documented kinds of optional tuning parameters (used only in context-free activations)
PARAM_KIND_TABLE = {
    "bits": ("int", "none"),       # bit width: a public Python int, default None -> global bitlength
}


class Frame:
    def __init__(self, fi, env, module, ctxkey, base, closure_env=None):
        self.fi = fi
        self.env = env
        self.module = module
        self.ctxkey = ctxkey
        self.base = base              # True if no parameter is tainted by the caller (base context)
        self.closure_env = closure_env
        self.rets = []
        self.globals = set()
        self.nonlocals = set()
        self.conds = []               # path conditions [(node, polarity, tainted)]
        self.pc_taint = 0             # >0 while executing code control-dependent on a tainted test
        self.self_v = None

    @property
    def fq(self):
        return self.fi.fq if self.fi is not None else self.module.name + ":<module>"


class Interp(ExprMixin):
    def __init__(self, repo):
        self.repo = repo
        self.memo = {}
        self.active = set()
        self.depth = 0
        self.tainted_alts = {}       # key -> dict
        self.alt_info = {}
        self.raise_paths = {}        # (fq, lineno, col) -> {"fi","node","paths":[...]}
        self.lc_taint = {}           # key -> dict
        self.tainted_loops = {}
        self.public_loops = {}
        self.param_hints = {}
        self.wire_choices = {}
        self.backend_attrs = {}
        self.call_records = {}
        self.div_sites = {}
        self.int_inverts = {}        # `~e` whose operand may be a plain int/bool
        self._cur = None
        self.calls = {}              # caller fq -> set of callee descriptors
        self.callsites = {}          # callee fq -> list of (caller fi, call node)
        self.global_taint = {}
        self.global_taint_changed = False
        self.module_envs = {}
        self.class_attr = {}         # (class fq, attr) -> V
        self.sysmod_alias = {}

    # ------------------------------------------------------------------ module level
    def module_env(self, m):
        if m.name in self.module_envs:
            return self.module_envs[m.name]
        env = {}
        self.module_envs[m.name] = env
        fr = Frame(None, env, m, (m.name, "<module>"), True)
        try:
            self.module_tree = getattr(self, "module_tree", {})
            self.module_tree[m.name] = self.do_block(m.tree.body, fr)
            self.collect_alts(self.module_tree[m.name], fr)
        except RecursionError:  # pragma: no cover
            pass
        if fr.env is not env:
            final = dict(fr.env)
            env.clear()
            env.update(final)
        return env

    def global_value(self, m, name):
        env = self.module_env(m)
        v = env.get(name)
        t = self.global_taint.get((m.name, name), False)
        if v is None:
            return None
        if t and not v.taint:
            v = v.with_taint(True)
        return v

    # ------------------------------------------------------------------ function level
    def analyze(self, fi, args, kwargs=None, closure_env=None, bound_self=None, star=False):
        """Returns (effect tree with END/RAISE leaves, return value V)."""
        kwargs = kwargs or {}
        params = fi.all_params
        pos = fi.params
        env = {}
        a = list(args)
        if bound_self is not None:
            a = [bound_self] + a
        na = fi.node.args
        for i, p in enumerate(pos):
            if i < len(a):
                env[p] = a[i]
            elif p in kwargs:
                env[p] = kwargs[p]
            else:
                d = fi.param_default(p)
                if d is not None and not star:
                    env[p] = self.eval_default(fi, d)
                elif d is not None and star and (fi.fq, p) in self.param_hints and "?" not in self.param_hints[(fi.fq, p)].kind:
                    # optional tuning parameter (bits, check, constrain ...): default joined with the kinds passed in-repo
                    h = self.param_hints[(fi.fq, p)]
                    dv = self.eval_default(fi, d)
                    env[p] = V(h.kind | dv.kind, h.taint)
                elif star and p in PARAM_KIND_TABLE and d is not None:
                    env[p] = V(frozenset(PARAM_KIND_TABLE[p]))
                elif i == 0 and fi.cls is not None and not fi.is_staticmethod:
                    k = CLASS_KIND.get(fi.cls.fq)
                    if fi.is_classmethod:
                        env[p] = V("cls", fn=("class", fi.cls))
                    else:
                        env[p] = V(k) if k else V("obj", fn=("instance", fi.cls))
                else:
                    env[p] = unknown()
        for p in na.kwonlyargs:
            if p.arg in kwargs:
                env[p.arg] = kwargs[p.arg]
            else:
                d = fi.param_default(p.arg)
                env[p.arg] = self.eval_default(fi, d) if d is not None else unknown()
        if na.vararg:
            extra = a[len(pos):]
            el = None
            for x in extra:
                el = join(el, x)
            env[na.vararg.arg] = listof(el if el is not None else unknown(), "tuple")
        if na.kwarg:
            env[na.kwarg.arg] = V("dict")
        if not star:
            for i, p in enumerate(pos):
                if fi.param_default(p) is not None and (i < len(a) or p in kwargs):
                    v_ = env[p]
                    old = self.param_hints.get((fi.fq, p))
                    self.param_hints[(fi.fq, p)] = V(v_.kind | (old.kind if old else frozenset()), v_.taint or bool(old and old.taint))
        base = not any(v.taint for v in env.values())
        key = (fi.fq, tuple((p, env[p].key()) for p in sorted(env)), id(closure_env) if closure_env else 0)
        if key in self.memo:
            return self.memo[key]
        if key in self.active or self.depth > MAX_DEPTH:
            return ev(("rec", fi.fq)), unknown()
        self.active.add(key)
        self.depth += 1
        try:
            fr = Frame(fi, env, fi.module, key, base, closure_env)
            if pos and fi.cls is not None and not fi.is_staticmethod:
                fr.self_v = env.get(pos[0])
            tree = self.do_block(fi.body, fr)
            self.collect_alts(tree, fr)
            ret = None
            for r in fr.rets:
                ret = join(ret, r)
            if falls_through(tree):
                ret = join(ret, const(None)) if ret is not None else const(None)
            if ret is None:
                ret = V("never")
            tree = subst_leaf(tree, RET, END)
            tree = subst_leaf(subst_leaf(tree, BRK, END), CONT, END)
            res = (tree, ret)
        finally:
            self.depth -= 1
            self.active.discard(key)
        self.memo[key] = res
        return res

    def eval_default(self, fi, node):
        if isinstance(node, ast.Constant):
            return const(node.value)
        fr = Frame(None, {}, fi.module, ("default",), True)
        try:
            _, v = self.eval(node, fr)
            return v
        except Exception:
            return unknown()

    def analyze_base(self, fi):
        """Context-free activation: every parameter unknown (self typed by its class)."""
        return self.analyze(fi, [], {}, None, None, star=True)

    def run_all(self, modules=None):
        """Analyse every function in its base context; repeated until the abstract values of
        module globals (kinds and taint, which functions may update) are stable."""
        for _round in range(4):
            self.global_taint_changed = False
            before = self._globals_fingerprint()
            for m in self.repo.modules.values():
                if modules is not None and m.name not in modules:
                    continue
                self.module_env(m)
                for fi in list(m.functions.values()):
                    if isinstance(fi.node, ast.Lambda):
                        continue
                    self.analyze_base(fi)
            hints_now = sorted((k, tuple(sorted(v.kind))) for k, v in self.param_hints.items())
            if not self.global_taint_changed and before == self._globals_fingerprint() and _round >= 1 \
                    and hints_now == getattr(self, "_hints_prev", None):
                break
            self._hints_prev = hints_now
            self.memo.clear()
            self.tainted_alts.clear()
            self.raise_paths.clear()
            self.lc_taint.clear()
            self.tainted_loops.clear()
            self.calls.clear()
            self.callsites.clear()
            self.call_records.clear()
            self.div_sites.clear()
            self.wire_choices.clear()

    def _globals_fingerprint(self):
        out = []
        for mn, env in sorted(self.module_envs.items()):
            for k, v in sorted(env.items()):
                if isinstance(v, V):
                    out.append((mn, k, tuple(sorted(v.kind)), v.taint))
        for k, v in sorted(self.class_attr.items()):
            out.append((k, tuple(sorted(v.kind)), v.taint))
        return out

    # ------------------------------------------------------------------ statements
    def do_block(self, stmts, fr):
        tree = END
        for s in stmts:
            seg = self.do_stmt(s, fr)
            tree = concat(tree, seg)
            if not falls_through(seg):
                break
        return tree

    def do_stmt(self, s, fr):
        m = getattr(self, "st_" + type(s).__name__, None)
        if m is None:
            return self.st_generic(s, fr)
        return m(s, fr)

    def st_generic(self, s, fr):
        tree = END
        for c in ast.iter_child_nodes(s):
            if isinstance(c, ast.expr):
                t, _ = self.eval(c, fr)
                tree = concat(tree, t)
        return tree

    def st_Pass(self, s, fr):
        return END

    def st_Break(self, s, fr):
        return BRK

    def st_Continue(self, s, fr):
        return CONT

    def st_Global(self, s, fr):
        fr.globals.update(s.names)
        return END

    def st_Nonlocal(self, s, fr):
        fr.nonlocals.update(s.names)
        return END

    def st_Import(self, s, fr):
        return END

    st_ImportFrom = st_Import

    def st_ClassDef(self, s, fr):
        if fr.fi is None:
            ci = fr.module.classes.get(s.name)
            if ci is not None:
                fr.env[s.name] = V("cls", fn=("class", ci))
        return END

    def st_FunctionDef(self, s, fr):
        if fr.fi is None:
            fi = fr.module.functions.get(s.name)
        else:
            fi = fr.fi.children.get(s.name)
        if fi is not None:
            v = V("func", fn=Closure(fi, fr.env if fr.fi is not None else None))
            # decorators of nested/top-level functions:  @inited, @subqap(nm) ...
            tree = END
            for d in reversed(s.decorator_list):
                t, dv = self.eval(d, fr)
                tree = concat(tree, t)
                if isinstance(dv.fn, Closure):
                    t2, v2 = self.analyze(dv.fn.fi, [v], {}, dv.fn.env, dv.fn.bound_self)
                    tree = concat(tree, t2)
                    if isinstance(v2.fn, Closure):
                        v = v2
                elif dv.fn and dv.fn[0] == "builtin" and dv.fn[1] in ("classmethod", "staticmethod"):
                    pass
            fr.env[s.name] = v
            return tree
        return END

    st_AsyncFunctionDef = st_FunctionDef

    def st_Expr(self, s, fr):
        t, _ = self.eval(s.value, fr)
        return t

    def st_Return(self, s, fr):
        if s.value is None:
            fr.rets.append(const(None))
            return RET
        t, v = self.eval(s.value, fr)
        if fr.pc_taint and not v.taint and v.kind <= (INTLIKE | frozenset(["str", "none"])):
            v = v.with_taint(True)
        if fr.pc_taint and fr.fi is not None and fr.base and _wireish(v):
            self.record_wire_choice(fr, "ret", None, s, s.value)
        fr.rets.append(v)
        return concat(t, RET)

    def st_Raise(self, s, fr):
        t = END
        if s.exc is not None:
            t, _ = self.eval(s.exc, fr)
        if fr.fi is not None and fr.base:
            key = (fr.fq, s.lineno, s.col_offset)
            rec = self.raise_paths.setdefault(key, {"fi": fr.fi, "node": s, "paths": []})
            p = list(fr.conds)
            if p not in rec["paths"]:
                rec["paths"].append(p)
        # effects of building the message never complete: drop them
        return RAISE

    def st_Assert(self, s, fr):
        t, v = self.eval(s.test, fr)
        tag = (fr.fq, s.lineno, s.col_offset, "assert " + norm(s.test))
        return concat(t, alt(tag, v.taint, END, RAISE))

    def st_Delete(self, s, fr):
        return END

    def bind(self, target, v, fr, tree_acc):
        """Bind an abstract value to an assignment target; returns extra effect tree."""
        local = isinstance(target, ast.Name) and fr.fi is not None and target.id not in fr.globals
        if fr.pc_taint and v.kind <= (INTLIKE | frozenset(["str", "none"])) and not v.taint and not local:
            # a value stored where it outlives the region carries the fact that the region ran.  A local does so only
            # once control leaves the region: it is tainted at the join (implicit_flow), not inside the region, where
            # `t = f(public); use(t)` means what `use(f(public))` means
            v = v.with_taint(True)
        if isinstance(target, ast.Name):
            if target.id in fr.globals or fr.fi is None:
                if v.taint and not self.global_taint.get((fr.module.name, target.id)):
                    self.global_taint[(fr.module.name, target.id)] = True
                    self.global_taint_changed = True
                if fr.fi is not None:
                    menv = self.module_env(fr.module)
                    old = menv.get(target.id)
                    nv = join(old, v) if old is not None else v
                    if v.fn is not None and v.fn[0] == "module" if not isinstance(v.fn, Closure) else False:
                        nv = v
                    menv[target.id] = nv
                    return END
            if target.id in fr.nonlocals and fr.closure_env is not None:
                old = fr.closure_env.get(target.id)
                fr.closure_env[target.id] = join(old, v) if old is not None else v
                return END
            fr.env[target.id] = v
            return END
        if isinstance(target, (ast.Tuple, ast.List)):
            el = v.elem if v.elem is not None else unknown(v.taint)
            if v.items is not None and len(v.items) == len(target.elts) \
                    and not any(isinstance(e, ast.Starred) for e in target.elts):
                for e, x in zip(target.elts, v.items):
                    self.bind(e, x, fr, tree_acc)
                return END
            for e in target.elts:
                self.bind(e, el, fr, tree_acc)
            return END
        if isinstance(target, ast.Starred):
            return self.bind(target.value, listof(v), fr, tree_acc)
        if isinstance(target, ast.Attribute):
            t, bv = self.eval(target.value, fr)
            if bv.fn is not None and not isinstance(bv.fn, Closure) and bv.fn[0] == "class":
                k = (bv.fn[1].fq, target.attr)
                old = self.class_attr.get(k)
                self.class_attr[k] = join(old, v) if old is not None else v
            return t
        if isinstance(target, ast.Subscript):
            t, bv = self.eval(target.value, fr)
            t2, _ = self.eval(target.slice, fr)
            if isinstance(target.value, ast.Name) and bv.kind <= frozenset(["list", "dict", "tuple"]):
                nv = V(bv.kind, bv.taint, NOCONST, None, join(bv.elem, v))  # items dropped
                if target.value.id in fr.env:
                    fr.env[target.value.id] = nv
            return concat(t, t2)
        return END

    def st_Assign(self, s, fr):
        t, v = self.eval(s.value, fr)
        if fr.pc_taint and fr.fi is not None and fr.base and _wireish(v) and len(s.targets) == 1 \
                and isinstance(s.targets[0], ast.Name):
            self.record_wire_choice(fr, "assign", s.targets[0].id, s, s.value)
        for tg in s.targets:
            t = concat(t, self.bind(tg, v, fr, None))
        return t

    def st_AnnAssign(self, s, fr):
        if s.value is None:
            return END
        t, v = self.eval(s.value, fr)
        return concat(t, self.bind(s.target, v, fr, None))

    def st_AugAssign(self, s, fr):
        load = _as_load(s.target)
        bin_ = ast.BinOp(left=load, op=s.op, right=s.value)
        ast.copy_location(bin_, s)
        bin_._aug = True
        t, v = self.eval(bin_, fr)
        return concat(t, self.bind(s.target, v, fr, None))

    # -- branches
    def st_If(self, s, fr):
        t, v = self.eval(s.test, fr)
        env_t, env_f = self.narrow(s.test, fr)
        tainted = v.taint
        tag = (fr.fq, s.lineno, s.col_offset, norm(s.test))
        arms = []
        pc0 = fr.pc_taint
        pcs = []
        for polarity, body, nenv in ((True, s.body, env_t), (False, s.orelse, env_f)):
            if v.const is not NOCONST and not tainted and bool(v.const) != polarity:
                arms.append((None, None))
                pcs.append(pc0)
                continue
            saved = fr.env
            fr.env = nenv
            fr.conds.append((s.test, polarity, tainted))
            fr.pc_taint = pc0 + (1 if tainted else 0)
            try:
                tr = self.do_block(body, fr)
            finally:
                pcs.append(fr.pc_taint - (1 if tainted else 0))
                fr.pc_taint = pc0
                fr.conds.pop()
            arms.append((tr, fr.env))
            fr.env = saved
        (ta, ea), (tb, eb) = arms
        if ta is None and tb is None:  # pragma: no cover
            return t
        if ta is None:
            fr.env = eb
            fr.pc_taint = pcs[1]
            return concat(t, tb)
        if tb is None:
            fr.env = ea
            fr.pc_taint = pcs[0]
            return concat(t, ta)
        fa, fb = falls_through(ta), falls_through(tb)
        # code after the statement is control-dependent on every tainted test that made a path leave early
        after = [pc for pc, f in zip(pcs, (fa, fb)) if f]
        fr.pc_taint = max(after) if after else pc0
        if tainted and (_has_leaf(ta, RET) or _has_leaf(tb, RET)):
            fr.pc_taint += 1
        if fa and not fb:
            fr.env = ea
        elif fb and not fa:
            fr.env = eb
        else:
            fr.env = self.join_env(ea, eb, tainted)
            if tainted:
                self.implicit_flow(fr, s.body + s.orelse)
        node = alt(tag, tainted, ta, tb)
        if tainted:
            self.record_tainted_alt(fr, s, "if", s.test, tag)
        return concat(t, node)

    def implicit_flow(self, fr, stmts):
        """Locals assigned inside a region governed by a tainted test are tainted once control has left the region."""
        names = set()
        for s in stmts:
            for n in ast.walk(s):
                if isinstance(n, ast.Name) and isinstance(n.ctx, ast.Store):
                    names.add(n.id)
        for nm in names:
            v = fr.env.get(nm)
            if isinstance(v, V) and not v.taint and v.kind <= (INTLIKE | frozenset(["str", "none"])):
                fr.env[nm] = v.with_taint(True)

    def join_env(self, a, b, tainted=False):
        out = {}
        for k in set(a) | set(b):
            va, vb = a.get(k), b.get(k)
            if va is None or vb is None:
                out[k] = va if vb is None else vb
            else:
                out[k] = va if va is vb else join(va, vb)
        return out

    def record_wire_choice(self, fr, kind, name, stmt, value):
        """A wire-valued result produced under value-dependent control (for R-C06-5)."""
        tainted = sorted(n for n, v in fr.env.items() if isinstance(v, V) and v.taint and not _wireish(v))
        gov = [(id(c), norm(c), pol) for c, pol, t in fr.conds if t]
        pub = [(id(c), norm(c), pol) for c, pol, t in fr.conds if not t]
        key = (fr.fq, stmt.lineno, stmt.col_offset, kind, name)
        self.wire_choices[key] = {"fi": fr.fi, "kind": kind, "name": name, "stmt": stmt, "value": value,
                                  "tainted_names": tainted, "gov": gov, "pub": pub}

    def record_tainted_alt(self, fr, node, kind, test, tag):
        self.alt_info[tag] = {"fi": fr.fi, "module": fr.module, "node": node, "kind": kind, "test": test}

    def collect_alts(self, tree, fr):
        """Post-pass over the finished term of an activation: every tainted alternative created by
        this function, with its arms as they finally are (early-exit arms carry their continuation)."""
        own = fr.fq

        def walk(s):
            for it in s:
                if it[0] == "alt":
                    if it[2] and it[1][0] == own and it[1] in self.alt_info:
                        info = self.alt_info[it[1]]
                        self.tainted_alts[(fr.ctxkey, it[1])] = dict(info, a=it[3], b=it[4], base=fr.base,
                                                                     fq=own, ctx=fr.ctxkey, tag=it[1])
                    walk(it[3])
                    walk(it[4])
                elif it[0] == "loop":
                    walk(it[2])
        walk(tree)

    def st_For(self, s, fr):
        t, iv = self.eval(s.iter, fr)
        ivt = shape_tainted(iv)
        elem = iv.elem if iv.elem is not None else unknown(iv.taint)
        body = END
        for _ in range(2):
            self.bind(s.target, elem, fr, None)
            before = dict(fr.env)
            fr.conds.append((s.iter, True, ivt))
            if ivt:
                fr.pc_taint += 1
            try:
                body = self.do_block(s.body, fr)
            finally:
                if ivt:
                    fr.pc_taint -= 1
                fr.conds.pop()
            fr.env = self.join_env(before, fr.env)
            if ivt:
                self.implicit_flow(fr, s.body)
        body = subst_leaf(subst_leaf(body, BRK, END), CONT, END)
        if not has_events(body):
            body = subst_leaf(body, RET, END) if not _has_leaf(body, RAISE) else body
            if not has_events(body) and not _has_leaf(body, RAISE) and not _has_leaf(body, RET):
                body = END
        if ivt and has_events(body):
            self.record_tainted_loop(fr, s, s.iter, body)
        elif has_events(body):
            self.public_loops[(fr.fq, norm(s.iter))] = (fr.module, s)
        node = loop(norm(s.iter), body)
        tree = concat(t, node)
        if s.orelse:
            tree = concat(tree, self.do_block(s.orelse, fr))
        return tree

    st_AsyncFor = st_For

    def record_tainted_loop(self, fr, node, it, body):
        key = (fr.ctxkey, node.lineno, node.col_offset)
        self.tainted_loops[key] = {"fi": fr.fi, "module": fr.module, "node": node, "iter": it,
                                   "body": body, "base": fr.base, "fq": fr.fq}

    def st_While(self, s, fr):
        body = END
        tt = END
        tv = unknown()
        for _ in range(2):
            before = dict(fr.env)
            tt, tv = self.eval(s.test, fr)
            fr.conds.append((s.test, True, tv.taint))
            if tv.taint:
                fr.pc_taint += 1
            try:
                body = self.do_block(s.body, fr)
            finally:
                if tv.taint:
                    fr.pc_taint -= 1
                fr.conds.pop()
            fr.env = self.join_env(before, fr.env)
            if tv.taint:
                self.implicit_flow(fr, s.body)
        body = subst_leaf(subst_leaf(body, BRK, END), CONT, END)
        body = concat(tt, body)
        if not has_events(body) and not _has_leaf(body, RAISE) and not _has_leaf(body, RET):
            body = END
        if tv.taint and has_events(body):
            self.record_tainted_loop(fr, s, s.test, body)
        tree = loop("while " + norm(s.test), body)
        if s.orelse:
            tree = concat(tree, self.do_block(s.orelse, fr))
        return tree

    def st_With(self, s, fr):
        tree = END
        for it in s.items:
            t, v = self.eval(it.context_expr, fr)
            tree = concat(tree, t)
            if it.optional_vars is not None:
                self.bind(it.optional_vars, unknown(), fr, None)
        return concat(tree, self.do_block(s.body, fr))

    st_AsyncWith = st_With

    def st_Try(self, s, fr):
        before = dict(fr.env)
        body = self.do_block(s.body, fr)
        env_body = fr.env
        if s.orelse:
            body = concat(body, self.do_block(s.orelse, fr))
            env_body = fr.env
        htree = None
        envs = [env_body]
        for h in s.handlers:
            fr.env = self.join_env(before, env_body)
            if h.name:
                fr.env[h.name] = unknown()
            ht = self.do_block(h.body, fr)
            envs.append(fr.env)
            htree = ht if htree is None else alt((fr.fq, h.lineno, h.col_offset, "except"), False, htree, ht)
        env = envs[0]
        for e in envs[1:]:
            env = self.join_env(env, e)
        fr.env = env
        tree = body
        if htree is not None:
            if _has_leaf(body, RAISE):
                tree = subst_leaf(body, RAISE, htree)
            else:
                # a handler may still run (exceptions from unmodelled calls): optional alternative
                tree = alt((fr.fq, s.lineno, s.col_offset, "try"), False, body, htree) \
                    if has_events(htree) else body
        if s.finalbody:
            fin = self.do_block(s.finalbody, fr)
            if fin != END:
                tree = concat(tree, fin)
                for leaf in (RET, RAISE):
                    if _has_leaf(tree, leaf) and has_events(fin):
                        tree = subst_leaf(tree, leaf, concat(fin, leaf))
        return tree

    st_TryStar = st_Try

    def st_Match(self, s, fr):  # pragma: no cover - not used by the repository
        t, _ = self.eval(s.subject, fr)
        tree = None
        for c in s.cases:
            saved = dict(fr.env)
            b = self.do_block(c.body, fr)
            fr.env = saved
            tree = b if tree is None else alt((fr.fq, c.pattern.lineno, 0, "case"), False, tree, b)
        return concat(t, tree or END)


WIREKINDS = frozenset(["LC", "LCB", "LCF", "BLC"])


def _wireish(v):
    if not v.kind:
        return False
    if v.kind <= WIREKINDS:
        return True
    if v.kind <= frozenset(["list", "tuple"]) and v.elem is not None and v.elem.kind and v.elem.kind <= WIREKINDS:
        return True
    return False


def _as_load(t):
    if isinstance(t, ast.Name):
        n = ast.Name(id=t.id, ctx=ast.Load())
    elif isinstance(t, ast.Attribute):
        n = ast.Attribute(value=t.value, attr=t.attr, ctx=ast.Load())
    elif isinstance(t, ast.Subscript):
        n = ast.Subscript(value=t.value, slice=t.slice, ctx=ast.Load())
    else:
        return t
    return ast.copy_location(n, t)
