"""Value terms of hint / wire expressions, path enumeration inside one function, and identity
checking with finite case splits.

`Valuer.val(expr)` maps an expression to the polynomial of the *integer value* it denotes, under
the homomorphism  X.value -> <X>,  X.lc -> <X>,  PrivVal(e) -> e,  LinComb.ZERO/ONE -> 0/1,
backend.fieldinverse(e) -> inv(e),  a // c -> a*inv(c) when `a % c == 0` is known, ...
Tests whose truth matters (IfExp conditions, Iverson brackets `(e == 0)` used as numbers) raise
NeedCase; `all_cases` then splits on them.  No solver: identities are polynomial normal forms.
"""
import ast
from fractions import Fraction

from .loader import norm
from .loader import clone
from .poly import P


def helper_alternatives(fn):
    """[(kind, a, b)] in source order for a helper in the fragment
           [docstring]  (if T: return E)*  ( return E  |  try: return E  except ..: return V )
       kinds: ("if", T, E), ("ret", E, None), ("try", E, V); None outside the fragment."""
    body = [s for s in fn.body if not (isinstance(s, ast.Expr) and isinstance(s.value, ast.Constant))]
    if not body or fn.args.vararg or fn.args.kwarg or fn.args.kwonlyargs or fn.decorator_list:
        return None
    none = ast.Constant(value=None)
    out = []
    for s in body[:-1]:
        if isinstance(s, ast.If) and not s.orelse and len(s.body) == 1 and isinstance(s.body[0], ast.Return):
            out.append(("if", s.test, s.body[0].value or none))
        else:
            return None
    last = body[-1]
    if isinstance(last, ast.Return):
        out.append(("ret", last.value or none, None))
    elif isinstance(last, ast.Try) and len(last.body) == 1 and isinstance(last.body[0], ast.Return) and last.body[0].value is not None \
            and len(last.handlers) == 1 and len(last.handlers[0].body) == 1 and isinstance(last.handlers[0].body[0], ast.Return) \
            and not last.orelse and not last.finalbody:
        out.append(("try", last.body[0].value, last.handlers[0].body[0].value or none))
    else:
        return None
    return out


_CASE_ORACLE = {}      # normalised test -> truth: the cases all_cases has split on, visible while `assumptions()` runs


class NeedCase(Exception):
    def __init__(self, test):
        self.test = test


class Contradiction(Exception):
    pass


class Undecidable(Exception):
    pass


class Refuted(Exception):
    """A hint is provably not covered by the checks that dominate it."""


class _NoneVal:
    """the value None (a hint helper that reports 'no inverse' / 'not given')"""
    def __repr__(self):
        return "None"


NONE = _NoneVal()


class ListBits:
    """[bit_i(E) for i in range(N)] : little-endian bits of E, N of them."""

    def __init__(self, of, width, src):
        self.of, self.width, self.src = of, width, src


class Facts:
    def __init__(self):
        self.truth = {}        # normalised test text -> bool
        self.zero = []         # polys known == 0
        self.nonzero = []      # polys known != 0
        self.divides = []      # (a, c): c | a
        self.subst = {}        # symbol -> P
        self.notes = []
        self.boolean = []      # expression nodes known to be 0 or 1

    def copy(self):
        f = Facts()
        f.truth = dict(self.truth)
        f.zero = list(self.zero)
        f.nonzero = list(self.nonzero)
        f.divides = list(self.divides)
        f.subst = dict(self.subst)
        f.notes = list(self.notes)
        f.boolean = list(self.boolean)
        return f


def _canon_flag_call(txt):
    """`pysnark.runtime.ignore_errors()` / `runtime.is_guard()` are the flags `ignore_errors()` / `is_guard()`"""
    for f in ("ignore_errors()", "is_guard()"):
        if txt.endswith("." + f):
            return f
    return txt


def atoms_of(test, polarity):
    """Atomic (test, truth) consequences of `test == polarity` (conjunctive part only)."""
    if isinstance(test, ast.UnaryOp) and isinstance(test.op, ast.Not):
        return atoms_of(test.operand, not polarity)
    if isinstance(test, ast.BoolOp):
        if (isinstance(test.op, ast.And) and polarity) or (isinstance(test.op, ast.Or) and not polarity):
            out = []
            for v in test.values:
                out += atoms_of(v, polarity)
            return out
        return [(test, polarity)]
    return [(test, polarity)]


class Valuer:
    def __init__(self, env=None, facts=None, params=None):
        self.env = dict(env or {})        # name -> P | ListBits
        self.facts = facts or Facts()
        self.invs = {}                    # inv symbol name -> argument poly
        self.lemmas = []
        self.bool_defs = {}               # local name -> the Boolean expression it was bound to (fits = is_guard() and ..)
        self.exact_int = False            # integer semantics: `x % modulus` is not x (Python-agreement rules of C05)
        self.uninterp = False             # unknown calls become uninterpreted function symbols (lock-step rule of C04)
        self.helpers = {}                 # name -> FunctionDef of module-level helpers evaluated in place (helper_alternatives)
        self.split_disjunctions = False   # a disjunction of comparisons known to hold is split into its cases (C01 identities)

    # -------------------------------------------------------------- assumptions
    def assume(self, test, truth):
        for t, tr in atoms_of(test, truth):
            if isinstance(t, ast.IfExp) and self.split_disjunctions:
                # (A if c else B) has this truth value: the arm chosen by c has it (c is split on when it is not decided)
                self.assume(t.body if self.decide(t.test) else t.orelse, tr)
                continue
            if isinstance(t, ast.BoolOp):
                # (A and B) is False / (A or B) is True: if all operands but one are decided, the last one follows
                want_rest = isinstance(t.op, ast.And)      # And False: others True -> last False
                undecided = []
                settled = False
                for v in t.values:
                    try:
                        d = self.decide(v)
                    except (NeedCase, Undecidable):
                        undecided.append(v)
                        continue
                    if d != want_rest:
                        settled = True      # And has a False operand / Or has a True operand: nothing more to learn
                if not settled and len(undecided) == 1:
                    self.assume(undecided[0], not want_rest)
                elif not settled and not undecided:
                    raise Contradiction(norm(t))
                elif not settled and len(undecided) >= 2 and self.split_disjunctions and all(
                        isinstance(u_, ast.Compare) for u_ in undecided):
                    # (A or B) known true with neither decided (e.g. `v == 0 or v == 1` left by a refusal of non-bits): split
                    raise NeedCase(undecided[0])
                self.facts.truth[norm(t)] = tr
                continue
            self._assume1(t, tr)

    def _assume1(self, t, truth):
        txt = _canon_flag_call(norm(t))
        if txt in self.facts.truth and self.facts.truth[txt] != truth:
            raise Contradiction(txt)
        if isinstance(t, ast.Name) and t.id in self.bool_defs:
            # a test on a local that names a condition: the condition itself has that truth value
            d_ = self.bool_defs.pop(t.id)
            self.facts.truth[txt] = truth
            self.assume(d_, truth)
            self.bool_defs[t.id] = d_
            return
        if isinstance(t, ast.Name) and t.id in self.env:
            # a test on a local that holds a known constant (a flag) is decided by that constant
            a = self.env[t.id]
            if a is NONE and truth:
                raise Contradiction(txt)
            if isinstance(a, P) and a.is_const() and (a.const_value() != 0) != truth:
                raise Contradiction(txt)
        if isinstance(t, ast.Compare) and len(t.ops) == 1 and isinstance(t.ops[0], (ast.Is, ast.IsNot)) \
                and isinstance(t.comparators[0], ast.Constant) and t.comparators[0].value is None \
                and isinstance(t.left, ast.Name) and t.left.id in self.env:
            a = self.env[t.left.id]
            known = None
            if a is NONE:
                known = isinstance(t.ops[0], ast.Is)
            elif isinstance(a, P) and a != P.sym(t.left.id):
                known = isinstance(t.ops[0], ast.IsNot)
            if known is not None and known != truth:
                raise Contradiction(txt)
        self.facts.truth[txt] = truth
        if isinstance(t, ast.Call) and txt in ("is_guard()", "ignore_errors()"):
            return
        if isinstance(t, ast.Call) and norm(t.func).endswith("is_boolean_value") and truth and t.args:
            self.facts.boolean.append(t.args[0])
            return
        if isinstance(t, ast.Compare) and len(t.ops) == 1:
            op = t.ops[0]
            try:
                a = self.val(t.left)
                b = self.val(t.comparators[0])
            except (NeedCase, Undecidable):
                return
            if not isinstance(a, P) or not isinstance(b, P):
                return
            d = a - b
            eq = (isinstance(op, ast.Eq) and truth) or (isinstance(op, ast.NotEq) and not truth)
            ne = (isinstance(op, ast.NotEq) and truth) or (isinstance(op, ast.Eq) and not truth)
            if eq:
                # divisibility  a % c == 0
                if isinstance(t.left, ast.BinOp) and isinstance(t.left.op, ast.Mod) and b.is_zero():
                    try:
                        self.facts.divides.append((self.val(t.left.left), self.val(t.left.right)))
                    except (NeedCase, Undecidable):
                        pass
                    return
                if d.is_const():
                    if d.const_value() != 0:
                        raise Contradiction(txt)
                    return
                self.facts.zero.append(d)
                syms = sorted(d.symbols())
                # solve for a symbol that occurs linearly with constant coefficient
                for s in syms:
                    ab = d.coeff_of(s)
                    if ab and ab[0].is_const() and ab[0].const_value() != 0 and s not in ab[1].symbols():
                        sol = ab[1] * Fraction(-1) * (1 / ab[0].const_value())
                        self.facts.subst[s] = sol
                        for k, v in list(self.env.items()):
                            if isinstance(v, P):
                                self.env[k] = v.subst({s: sol})
                        for nz in self.facts.nonzero:
                            if nz.subst({s: sol}).is_zero():
                                raise Contradiction(txt)
                        break
            elif ne:
                if d.is_zero():
                    raise Contradiction(txt)
                self.facts.nonzero.append(d)
                self.facts.nonzero.append(-d)

    # -------------------------------------------------------------- values
    def sym(self, name):
        p = P.sym(name)
        return p.subst(self.facts.subst) if self.facts.subst else p

    def decide(self, test):
        """Truth of a test under the facts, or raise NeedCase."""
        if isinstance(test, ast.UnaryOp) and isinstance(test.op, ast.Not):
            return not self.decide(test.operand)
        if isinstance(test, ast.BoolOp):
            vals = [self.decide(v) for v in test.values]
            return all(vals) if isinstance(test.op, ast.And) else any(vals)
        txt = _canon_flag_call(norm(test))
        if txt in self.facts.truth:
            return self.facts.truth[txt]
        if isinstance(test, ast.Compare) and len(test.ops) == 1 and isinstance(test.ops[0], (ast.Is, ast.IsNot)) \
                and isinstance(test.comparators[0], ast.Constant) and test.comparators[0].value is None \
                and isinstance(test.left, ast.Name) and test.left.id in self.env:
            # a local bound on this path: None itself, or a number computed from the hints (never None)
            a = self.env[test.left.id]
            if a is NONE:
                return isinstance(test.ops[0], ast.Is)
            if isinstance(a, P) and a != P.sym(test.left.id):
                return isinstance(test.ops[0], ast.IsNot)
        if isinstance(test, ast.Compare) and len(test.ops) == 1:
            try:
                a, b = self.val(test.left), self.val(test.comparators[0])
                if isinstance(a, P) and isinstance(b, P):
                    d = a - b
                    if d.is_const():
                        c = d.const_value()
                        op = test.ops[0]
                        return {ast.Eq: c == 0, ast.NotEq: c != 0, ast.Lt: c < 0, ast.LtE: c <= 0, ast.Gt: c > 0,
                                ast.GtE: c >= 0}.get(type(op), None)
                    if isinstance(test.ops[0], (ast.Eq, ast.NotEq)):
                        if any(d == z or d == -z for z in self.facts.nonzero):
                            return isinstance(test.ops[0], ast.NotEq)
                        if any(d == z or d == -z for z in self.facts.zero):
                            return isinstance(test.ops[0], ast.Eq)
            except Undecidable:
                pass
        if isinstance(test, (ast.Name, ast.Attribute, ast.BinOp, ast.IfExp)):
            try:
                a = self.val(test)
                if isinstance(a, P) and a.is_const():
                    return a.const_value() != 0
            except Undecidable:
                pass
        if norm(test) in _CASE_ORACLE:
            # a case split already made by all_cases while the assumptions are being (re)built: take that case
            tr_ = _CASE_ORACLE[norm(test)]
            self._assume1(test, tr_)
            return tr_
        raise NeedCase(test)

    def inv(self, a):
        if a.is_const():
            c = a.const_value()
            if c == 0:
                raise Undecidable("inverse of zero")
            return P.const(1 / c)
        name = "inv(%s)" % a
        self.invs[name] = a
        return P.sym(name)

    def val(self, n):
        if isinstance(n, ast.Constant):
            if n.value is None:
                return NONE
            if isinstance(n.value, bool):
                return P.const(int(n.value))
            if isinstance(n.value, int):
                return P.const(n.value)
            raise Undecidable(norm(n))
        txt = norm(n)
        if txt in self.env:
            return self.env[txt]
        if isinstance(n, ast.Name):
            return self.sym(n.id)
        if isinstance(n, ast.Attribute):
            if txt in ("LinComb.ZERO", "runtime.LinComb.ZERO"):
                return P()
            if txt in ("LinComb.ONE_SAFE", "runtime.LinComb.ONE_SAFE"):
                return P.const(1)
            if txt in ("LinComb.ONE", "runtime.LinComb.ONE"):
                # inside a guarded region LinComb.ONE is the guard wire (value 0 or 1), not the constant one
                return self.env.get("LinComb.ONE", P.sym("ONE"))
            if n.attr in ("value", "lc"):
                return self.val(n.value)
            return self.sym(txt)
        if isinstance(n, ast.UnaryOp):
            if isinstance(n.op, ast.USub):
                return -self._p(n.operand)
            if isinstance(n.op, ast.UAdd):
                return self._p(n.operand)
            if isinstance(n.op, ast.Invert):
                return P.const(1) - self._p(n.operand)   # ~b on a Boolean wire = 1 - b
            if isinstance(n.op, ast.Not):
                return P.const(0 if self.decide(n.operand) else 1)
        if isinstance(n, ast.BinOp):
            if isinstance(n.op, ast.Mod) and not self.exact_int and norm(n.right).endswith("get_modulus()"):
                return self._p(n.left)          # congruence mod p
            if isinstance(n.op, ast.Mod) and not self.exact_int and norm(n.right) in ("PRIME", "snarkjsp", "modulus", "vc_p"):
                return self._p(n.left)
            if isinstance(n.op, ast.Mod) and self.exact_int and (norm(n.right).endswith("get_modulus()") or norm(n.right) in (
                    "PRIME", "snarkjsp", "modulus", "vc_p")):
                l0 = self._p(n.left)
                if self.facts.subst:
                    l0 = l0.subst(self.facts.subst)
                if l0.is_zero() or any(l0 == z or l0 == -z for z in self.facts.zero):
                    return P()
                return P.sym("residue(%s)" % l0)    # over the integers a residue is NOT the value
            l, r = self._p(n.left), self._p(n.right)
            if isinstance(n.op, ast.Add):
                return l + r
            if isinstance(n.op, ast.Sub):
                return l - r
            if isinstance(n.op, ast.Mult):
                return l * r
            if isinstance(n.op, ast.Pow) and r.is_const() and r.const_value().denominator == 1 and 0 <= r.const_value() <= 8:
                return l ** int(r.const_value())
            if isinstance(n.op, ast.LShift) and r.is_const() and r.const_value().denominator == 1 and 0 <= r.const_value() < 4096:
                return l * (2 ** int(r.const_value()))
            if isinstance(n.op, ast.LShift):
                # x << k is x * 2^k for every k it is defined for (a negative k raises): one symbol per exponent
                return l * P.sym("pow2(%s)" % r)
            if isinstance(n.op, (ast.FloorDiv, ast.Div)):
                if any(l == a and r == c for a, c in self.facts.divides):
                    return l * self.inv(r)
                if l.is_const() and r.is_const() and r.const_value() != 0 and (l.const_value() / r.const_value()).denominator == 1:
                    return P.const(l.const_value() / r.const_value())
                return P.sym("%s(%s,%s)" % ("floordiv" if isinstance(n.op, ast.FloorDiv) else "truediv", l, r))
            if isinstance(n.op, ast.Mod):
                # Python: a % c == a - c*(a // c)
                if any(l == a and r == c for a, c in self.facts.divides):
                    return P()
                if l.is_const() and r.is_const() and r.const_value() != 0 and l.const_value().denominator == 1 \
                        and r.const_value().denominator == 1:
                    return P.const(int(l.const_value()) % int(r.const_value()))
                return l - r * P.sym("floordiv(%s,%s)" % (l, r))
            return P.sym("%s(%s,%s)" % (type(n.op).__name__, l, r))
        if isinstance(n, ast.IfExp):
            return self.val(n.body) if self.decide(n.test) else self.val(n.orelse)
        if isinstance(n, ast.Compare):
            return P.const(1 if self.decide(n) else 0)
        if isinstance(n, ast.Call):
            f = norm(n.func)
            short = f.split(".")[-1]
            if short in ("PrivVal", "PubVal", "ConstVal", "PrivValBool", "PubValBool", "privval", "pubval", "int") and len(n.args) == 1:
                return self.val(n.args[0])
            if short == "LinComb" and len(n.args) == 2:
                return self.val(n.args[0])
            if short == "LinCombBool" and n.args:
                return self.val(n.args[0])
            if short == "fieldinverse" and len(n.args) == 1:
                return self.inv(self._p(n.args[0]))
            if f in ("backend.one", "runtime.backend.one") or short == "one" and not n.args:
                return P.const(1)
            if short == "zero" and not n.args:
                return P()
            if short == "from_bits" and len(n.args) == 1:
                b = self.val(n.args[0])
                if isinstance(b, ListBits):
                    self.lemmas.append("from_bits(bits of E, %s of them) = E for 0 <= E < 2^%s  [E = %s]" % (b.width, b.width, b.of))
                    return b.of
                raise Undecidable("from_bits of a list that is not a recognised decomposition")
            if short == "_ensurelc" and len(n.args) == 1:
                return self.val(n.args[0])
            if isinstance(n.func, ast.Name) and n.func.id in self.helpers and not n.keywords \
                    and not any(isinstance(a, ast.Starred) for a in n.args):
                r_ = self._helper_value(n, self.helpers[n.func.id])
                if r_ is not None:
                    return r_[0]
            if self.uninterp and not n.keywords and not any(isinstance(a, ast.Starred) for a in n.args):
                # uninterpreted function symbol applied to the value terms of its arguments
                args = [self._p(a) for a in n.args]
                if args and norm(n.args[-1]).endswith("get_modulus()"):
                    args = args[:-1]          # reduction modulo the field prime: a congruence
                base = ""
                if isinstance(n.func, ast.Attribute) and n.func.attr not in ("value", "lc"):
                    try:
                        base = "%s." % self._p(n.func.value)
                    except Undecidable:
                        base = norm(n.func.value) + "."
                return P.sym("%s%s(%s)" % (base, short, ",".join(str(a) for a in args)))
            raise Undecidable("call %s" % f)
        if isinstance(n, ast.ListComp):
            lb = self.bits_idiom(n)
            if lb is not None:
                return lb
            raise Undecidable("list comprehension %s" % txt[:60])
        raise Undecidable(txt[:60])

    def _helper_value(self, call, fn):
        """(value,) of a call of a small module-level helper, evaluated in place: guard clauses are decided on the argument
        terms (splitting cases where needed); `try: return E except X: return V` splits on whether E raises - a helper that
        swallows an exception turns "the run does not complete" into "the run completes with V", which is exactly what the
        caller's identity must then survive."""
        alts = helper_alternatives(fn)
        params = [a.arg for a in fn.args.args]
        if alts is None or len(params) != len(call.args):
            return None
        from .flatten import _Subst
        from .loader import clone
        mapping = dict(zip(params, call.args))

        def sub(e):
            return _Subst(mapping).visit(clone(e))
        for kind, a, b in alts:
            if kind == "if":
                if self.decide(sub(a)):
                    return (self.val(sub(b)),)
            elif kind == "ret":
                return (self.val(sub(a)),)
            elif kind == "try":
                body = sub(a)
                key = ast.Name(id="<%s raises>" % norm(body), ctx=ast.Load())
                if self.decide(key):
                    return (self.val(sub(b)),)
                return (self.val(body),)
        return None

    def _p(self, n):
        v = self.val(n)
        if not isinstance(v, P):
            raise Undecidable("non-scalar in arithmetic: %s" % norm(n)[:40])
        return v

    def bits_idiom(self, comp):
        """[Ctor((E & (1 << i)) >> i) for i in range(N)]"""
        if len(comp.generators) != 1 or comp.generators[0].ifs:
            return None
        g = comp.generators[0]
        if not (isinstance(g.iter, ast.Call) and norm(g.iter.func) == "range" and len(g.iter.args) == 1 and isinstance(g.target, ast.Name)):
            return None
        i = g.target.id
        e = comp.elt
        if isinstance(e, ast.Call) and len(e.args) == 1 and norm(e.func).split(".")[-1] in ("PrivValBool", "PubValBool", "PrivVal"):
            e = e.args[0]
        E = None
        if isinstance(e, ast.BinOp) and isinstance(e.op, ast.RShift) and norm(e.right) == i \
                and isinstance(e.left, ast.BinOp) and isinstance(e.left.op, ast.BitAnd):
            a, b = e.left.left, e.left.right
            if norm(b) == "1 << %s" % i:
                E = a
            elif norm(a) == "1 << %s" % i:
                E = b
            else:
                return None
        elif isinstance(e, ast.BinOp) and ((isinstance(e.op, ast.BitAnd) and norm(e.right) == "1") or (
                isinstance(e.op, ast.Mod) and norm(e.right) == "2")) and isinstance(e.left, ast.BinOp) \
                and isinstance(e.left.op, ast.RShift) and norm(e.left.right) == i:
            E = e.left.left          # (E >> i) & 1   |   (E >> i) % 2
        elif isinstance(e, ast.BinOp) and isinstance(e.op, ast.BitAnd) and norm(e.left) == "1" and isinstance(e.right, ast.BinOp) \
                and isinstance(e.right.op, ast.RShift) and norm(e.right.right) == i:
            E = e.right.left         # 1 & (E >> i)
        if E is not None:
            if any(isinstance(x, ast.Name) and x.id == i for x in ast.walk(E)):
                return None
            of = self._p(E)
            width = self._p(g.iter.args[0])
            bd = self.bounded(E, of, g.iter.args[0])
            if bd == "no":
                raise Refuted("the bits of `%s` are taken over `%s` positions, but the dominating checks do not imply 0 <= %s < 2^%s" % (
                    norm(E), norm(g.iter.args[0]), norm(E), norm(g.iter.args[0])))
            if bd != "yes":
                raise Undecidable("decomposition of `%s` into `%s` bits without a recognised dominating range check" % (norm(E), norm(g.iter.args[0])))
            return ListBits(of, width, comp)
        if isinstance(e, ast.Constant) and e.value in (0, False):
            return ListBits(P(), self._p(g.iter.args[0]), comp)
        return None

    def bounded(self, E, of, N):
        """'yes' / 'no' / 'unknown': does 0 <= E < 2^N follow from the recorded facts?

        Interval reasoning over the comparisons recorded as facts.  T = 2^N is a symbol; every fact of the forms
            X.bit_length() <= N + k | < N + k     (=> |X| < 2^k * T)
            abs(X) < T | <= T - 1
            X < B, X <= B, X > B, X >= B          with B linear in T (`1 << N`, `2 ** N`), chains included
        contributes integer bounds lo <= X <= hi on the subject X.  `of` must be c*X + d with c in {1,-1}.
        'no' means the facts that mention the subject are all understood and do not imply the bound (so the bit
        decomposition hint can be wrong for a value the dominating checks let through); 'unknown' means some fact
        mentioning the subject was not understood."""
        ntxt = norm(N)
        T = "2^N"

        class _Pow(ast.NodeTransformer):
            def visit_BinOp(self, n):
                self.generic_visit(n)
                if isinstance(n.op, ast.LShift) and norm(n.left) == "1" and norm(n.right) == ntxt:
                    return ast.copy_location(ast.Name(id="__pow2N__", ctx=ast.Load()), n)
                if isinstance(n.op, ast.Pow) and norm(n.left) == "2" and norm(n.right) == ntxt:
                    return ast.copy_location(ast.Name(id="__pow2N__", ctx=ast.Load()), n)
                return n

        def lin_T(p):
            """(a, b) with p == a*T + b, or None"""
            a = b = 0
            for mono, c in p.t.items():
                if mono == ():
                    b = c
                elif mono == ((T, 1),):
                    a = c
                else:
                    return None
            try:
                if int(a) != a or int(b) != b:
                    return None
            except Exception:
                return None
            return (int(a), int(b))

        def val_T(node):
            import copy as _copy
            n2 = _Pow().visit(clone(node))
            old = self.env.get("__pow2N__")
            self.env["__pow2N__"] = P.sym(T)
            try:
                r_ = self.val(n2)
                # a local bound to the power (limit = 1 << N) carries the symbolic pow2(<N>): the same T
                if isinstance(r_, P):
                    try:
                        key = "pow2(%s)" % self._p(N)
                        if key in r_.symbols():
                            r_ = r_.subst({key: P.sym(T)})
                    except Exception:
                        pass
                return r_
            finally:
                if old is None:
                    self.env.pop("__pow2N__", None)
                else:
                    self.env["__pow2N__"] = old

        if of.is_const():
            return "yes" if of.const_value() == 0 else "unknown"
        of_syms = of.symbols()
        bounds = []          # (X poly, 'lo'|'hi', (a, b))
        unknown = False
        FLIP = {ast.Lt: ast.Gt, ast.LtE: ast.GtE, ast.Gt: ast.Lt, ast.GtE: ast.LtE}

        def mentions(node):
            try:
                v = val_T(node)
            except Exception:
                return any(isinstance(x, ast.Name) and x.id in of_syms for x in ast.walk(node)) or \
                    any(s in norm(node) for s in of_syms)
            return isinstance(v, P) and bool(v.symbols() & of_syms)

        def add_cmp(left, op, right):
            """record left op right (already with its truth applied)"""
            nonlocal unknown
            for side, other, flip in ((left, right, False), (right, left, True)):
                if isinstance(side, ast.Call) and isinstance(side.func, ast.Attribute) and side.func.attr == "bit_length" and not side.args:
                    o = FLIP.get(type(op), type(op))() if flip else op
                    try:
                        X = self.val(side.func.value)
                    except Exception:
                        unknown = unknown or mentions(side.func.value)
                        return
                    if not isinstance(o, (ast.LtE, ast.Lt)):
                        return
                    k = None
                    if norm(other) == ntxt:
                        k = 0
                    else:
                        try:
                            dk = self.val(other) - self.val(N)
                            if dk.is_const() and int(dk.const_value()) == dk.const_value():
                                k = int(dk.const_value())
                        except Exception:
                            k = None
                    if k is not None and isinstance(o, ast.Lt):
                        k -= 1
                    if k is not None:
                        m = 2 ** k if k > 0 else 1          # |X| < 2^(N+k)
                        bounds.append((X, "lo", (-m, 1)))
                        bounds.append((X, "hi", (m, -1)))
                    elif isinstance(X, P) and X.symbols() & of_syms:
                        unknown = True      # bound by some unrelated width
                    return
                if isinstance(side, ast.Call) and norm(side.func) == "abs" and len(side.args) == 1:
                    o = FLIP.get(type(op), type(op))() if flip else op
                    try:
                        X = self.val(side.args[0])
                        B = lin_T(val_T(other))
                    except Exception:
                        unknown = unknown or mentions(side.args[0])
                        return
                    if B is None:
                        unknown = unknown or bool(X.symbols() & of_syms)
                        return
                    if isinstance(o, ast.Lt):
                        B = (B[0], B[1] - 1)
                    if isinstance(o, (ast.Lt, ast.LtE)):
                        bounds.append((X, "hi", B))
                        bounds.append((X, "lo", (-B[0], -B[1])))
                    return
            try:
                L, R = val_T(left), val_T(right)
            except Exception:
                unknown = unknown or mentions(left) or mentions(right)
                return
            if not isinstance(L, P) or not isinstance(R, P):
                return
            lt, rt = lin_T(L), lin_T(R)
            if lt is None and rt is not None:
                X, B, o = L, rt, op
            elif rt is None and lt is not None:
                X, B = R, lt
                o = FLIP.get(type(op), type(op))()
            else:
                if lt is None and rt is None and (L.symbols() | R.symbols()) & of_syms and isinstance(op, (ast.Lt, ast.LtE, ast.Gt, ast.GtE)):
                    unknown = True
                return
            if isinstance(o, ast.Lt):
                bounds.append((X, "hi", (B[0], B[1] - 1)))
            elif isinstance(o, ast.LtE):
                bounds.append((X, "hi", B))
            elif isinstance(o, ast.Gt):
                bounds.append((X, "lo", (B[0], B[1] + 1)))
            elif isinstance(o, ast.GtE):
                bounds.append((X, "lo", B))
            elif isinstance(o, ast.Eq):
                bounds.append((X, "lo", B))
                bounds.append((X, "hi", B))

        NEG = {ast.Lt: ast.GtE, ast.LtE: ast.Gt, ast.Gt: ast.LtE, ast.GtE: ast.Lt, ast.Eq: ast.NotEq, ast.NotEq: ast.Eq}
        for t, tr in list(self.facts.truth.items()):
            try:
                node = ast.parse(t, mode="eval").body
            except SyntaxError:
                continue
            if not isinstance(node, ast.Compare):
                if isinstance(node, ast.BoolOp) and mentions(node):
                    def _settled(x):
                        while isinstance(x, ast.UnaryOp) and isinstance(x.op, ast.Not):
                            x = x.operand
                        if isinstance(x, ast.BoolOp):
                            return all(_settled(y) for y in x.values)
                        return norm(x) in self.facts.truth
                    if not all(_settled(y) for y in node.values):
                        unknown = True          # an undecomposed disjunction about the subject
                continue
            if len(node.ops) == 1:
                op = node.ops[0]
                if not tr:
                    if type(op) not in NEG:
                        continue
                    op = NEG[type(op)]()
                add_cmp(node.left, op, node.comparators[0])
            elif tr:
                items = [node.left] + list(node.comparators)
                for k, op in enumerate(node.ops):
                    add_cmp(items[k], op, items[k + 1])
            elif mentions(node):
                unknown = True              # a false chain is a disjunction

        def le(x, y):
            """a*T+b <= a'*T+b' for every T >= 1"""
            return x[1] - y[1] <= (y[0] - x[0]) and x[0] <= y[0]

        lo_ok = hi_ok = False
        for X, kind, B in bounds:
            if not isinstance(X, P):
                continue
            for c in (1, -1):
                d = of - X * P.const(c)
                if not d.is_const():
                    continue
                dv = d.const_value()
                try:
                    if int(dv) != dv:
                        continue
                except Exception:
                    continue
                dv = int(dv)
                ofb = (c * B[0], c * B[1] + dv)
                if (c == 1 and kind == "lo") or (c == -1 and kind == "hi"):
                    if le((0, 0), ofb):          # lower bound of `of`
                        lo_ok = True
                else:
                    if le(ofb, (1, -1)):         # upper bound of `of`
                        hi_ok = True
        if lo_ok and hi_ok:
            return "yes"
        return "unknown" if unknown else "no"

    # -------------------------------------------------------------- simplification
    def simplify(self, p):
        """Apply a*inv(a) -> 1 for arguments known to be non-zero, and known-zero polynomials."""
        if self.facts.subst:
            p = p.subst(self.facts.subst)
        for z in self.facts.zero:
            z2 = z.subst(self.facts.subst) if self.facts.subst else z
            if p == z2 or p == -z2:
                return P()
        # a known-zero polynomial that is linear in one of its symbols (x - y - 1 == 0) is solved for it and substituted
        for z in self.facts.zero:
            z2 = z.subst(self.facts.subst) if self.facts.subst else z
            if p.is_zero() or z2.is_zero():
                continue
            for x_ in sorted(z2.symbols()):
                if x_ not in p.symbols():
                    continue
                lin = [(m_, c_) for m_, c_ in z2.t.items() if any(s_ == x_ for s_, _e in m_)]
                if len(lin) == 1 and lin[0][0] == ((x_, 1),):
                    c_ = lin[0][1]
                    rest = z2 - P({lin[0][0]: c_})
                    p = p.subst({x_: rest * P.const(-1 / c_)})
                    break
        for name, a in self.invs.items():
            if name not in p.symbols():
                continue
            nz = a.is_const() or any(a == z for z in self.facts.nonzero)
            if not nz:
                continue
            syms = sorted(a.symbols())
            if len(a.t) == 1 and len(syms) == 1:       # a = c * x
                (mono, coef), = a.t.items()
                x, e = mono[0]
                if e != 1:
                    continue
                out = P()
                for m, c in p.t.items():
                    d = dict(m)
                    k = min(d.get(x, 0), d.get(name, 0))
                    if k:
                        d[x] -= k
                        d[name] -= k
                        c = c / (coef ** k)
                    out = out + P({tuple(sorted((s, ee) for s, ee in d.items() if ee)): c})
                p = out
        return p


def all_cases(build, assumptions, max_cases=64):
    """Evaluate `build(valuer)` (returns a P that must be zero) under every consistent completion of the
    assumptions demanded by NeedCase.  Returns [(case description, result P or exception text)]."""
    results = []

    def go(extra):
        if len(results) > max_cases:
            return
        if len(extra) > 24 or len({(norm(t_), tr_) for t_, tr_ in extra}) < len(extra):
            # the same case demanded twice: the split makes no progress - undecided, never an endless recursion
            results.append((["%s=%s" % (norm(t), tr) for t, tr in extra], "undecidable: case split makes no progress", None))
            return
        try:
            _CASE_ORACLE.clear()
            _CASE_ORACLE.update({norm(t): tr for t, tr in extra})
            try:
                v = assumptions()
            finally:
                _CASE_ORACLE.clear()
            for t, tr in extra:
                v.assume(t, tr)
            for b in v.facts.boolean:
                c0 = ast.Compare(left=b, ops=[ast.Eq()], comparators=[ast.Constant(value=0)])
                c1 = ast.Compare(left=b, ops=[ast.Eq()], comparators=[ast.Constant(value=1)])
                if norm(c0) not in v.facts.truth and norm(c1) not in v.facts.truth:
                    go(extra + [(c0, True)])
                    go(extra + [(c1, True)])
                    return
            p = build(v)
            results.append((["%s=%s" % (norm(t), tr) for t, tr in extra], v.simplify(p), v))
        except NeedCase as nc:
            go(extra + [(nc.test, True)])
            go(extra + [(nc.test, False)])
        except Contradiction:
            return
        except Undecidable as e:
            results.append((["%s=%s" % (norm(t), tr) for t, tr in extra], "undecidable: %s" % e, None))
        except Refuted as e:
            results.append((["%s=%s" % (norm(t), tr) for t, tr in extra], "refuted: %s" % e, None))
    go([])
    return results


# ------------------------------------------------------------------------------------------------ paths
class Path:
    def __init__(self):
        self.conds = []      # (test node, polarity)
        self.assigns = []    # (name, value node)  in order
        self.steps = []      # ("cond", test, polarity) | ("assign", name, value node)  interleaved, in execution order

    def copy(self):
        p = Path()
        p.conds = list(self.conds)
        p.assigns = list(self.assigns)
        p.steps = list(self.steps)
        return p


def paths_to(fnode, target, max_paths=64):
    """All syntactic paths from function entry to statement/expression `target` (a node inside the body).
    Loop bodies are entered once (assignments inside them are kept as if executed)."""
    out = []

    def contains(s):
        return any(x is target for x in ast.walk(s))

    def walk(stmts, path):
        """returns list of paths that fall through the end of stmts; appends to out when target met"""
        cur = [path]
        for s in stmts:
            nxt = []
            for p in cur:
                if len(out) > max_paths:
                    return []
                if isinstance(s, ast.If):
                    if contains(s.test):
                        out.append(p.copy())
                    for pol, body in ((True, s.body), (False, s.orelse)):
                        q = p.copy()
                        q.conds.append((s.test, pol))
                        q.steps.append(("cond", s.test, pol))
                        nxt += walk(body, q)
                elif isinstance(s, (ast.Return, ast.Raise)):
                    if contains(s):
                        out.append(p.copy())
                elif isinstance(s, (ast.For, ast.While)):
                    nxt += walk(s.body, p.copy())
                    if contains(s) and not any(contains(b) for b in s.body):
                        out.append(p.copy())
                elif isinstance(s, ast.Try):
                    nxt += walk(s.body, p.copy())
                elif isinstance(s, ast.With):
                    nxt += walk(s.body, p.copy())
                else:
                    if contains(s):
                        out.append(p.copy())
                    q = p
                    if isinstance(s, ast.Assign) and len(s.targets) == 1 and isinstance(s.targets[0], ast.Name):
                        q = p.copy()
                        q.assigns.append((s.targets[0].id, s.value))
                        q.steps.append(("assign", s.targets[0].id, s.value))
                    elif isinstance(s, ast.AugAssign) and isinstance(s.target, ast.Name):
                        q = p.copy()
                        bn = ast.BinOp(left=ast.Name(id=s.target.id, ctx=ast.Load()), op=s.op, right=s.value)
                        q.assigns.append((s.target.id, bn))
                        q.steps.append(("assign", s.target.id, bn))
                    nxt.append(q)
            cur = nxt
            if not cur:
                break
        return cur
    body = fnode.body if isinstance(fnode.body, list) else []
    walk(body, Path())
    return out


def _names(node):
    return {n.id for n in ast.walk(node) if isinstance(n, ast.Name)}


def pre_assume(v, path):
    """Assume the path conditions that do not mention a local assigned on the path (they speak about parameters and
    globals, and are needed to evaluate the assignments).  Conditions on locals are assumed by `replay`, once the
    local is bound - assuming them earlier would record a truth value for an unbound name."""
    assigned = {nm for nm, _ in path.assigns}
    for t, pol in path.conds:
        if not (_names(t) & assigned):
            v.assume(t, pol)


def replay(v, path, unknown="?%s"):
    """Bind the path's assignments and assume its conditions on locals in execution order."""
    assigned = {nm for nm, _ in path.assigns}
    for st in path.steps:
        if st[0] == "assign":
            _, name, node = st
            # a later binding of any name the recorded conditions mention invalidates them
            for k_ in [k_ for k_, d_ in v.bool_defs.items() if k_ == name or any(isinstance(x, ast.Name) and x.id == name for x in ast.walk(d_))]:
                v.bool_defs.pop(k_, None)
            if isinstance(node, (ast.BoolOp, ast.Compare)) or (isinstance(node, ast.UnaryOp) and isinstance(node.op, ast.Not)):
                v.bool_defs[name] = node
            try:
                v.env[name] = v.val(node)
            except Undecidable:
                v.env.pop(name, None)
                inner_ = node
                while isinstance(inner_, ast.Call) and norm(inner_.func).split(".")[-1] in ("PrivVal", "PrivValBool", "int") and len(inner_.args) == 1:
                    inner_ = inner_.args[0]
                if isinstance(inner_, ast.Call) and getattr(v, "bit_calls", None) is not None and v.bit_calls(inner_):
                    # a witness hinted with the result of a helper that returns 0 or 1 on every return (or raises): a bit whose two
                    # values are two cases
                    one_ = ast.Compare(left=ast.Name(id=name, ctx=ast.Load()), ops=[ast.Eq()], comparators=[ast.Constant(value=1)])
                    tr_ = v.facts.truth.get(norm(one_))
                    if tr_ is None:
                        raise NeedCase(one_)
                    v.env[name] = P.const(1 if tr_ else 0)
                    continue
                v.env[name] = P.sym((unknown % name) + ("@%d" % getattr(node, "lineno", 0)))
        else:
            _, t, pol = st
            # a case split made before the locals of this test were bound (all_cases assumes its extra atoms first) recorded
            # only a truth value: now that the operands have values, derive the arithmetic fact as well
            for c_ in ast.walk(t):
                if isinstance(c_, ast.Compare) and norm(c_) in v.facts.truth and any(
                        isinstance(x_, ast.Name) and x_.id in assigned for x_ in ast.walk(c_)):
                    v._assume1(c_, v.facts.truth[norm(c_)])
            v.assume(t, pol)
    return v


def must_conds(fnode, target):
    """(test node, polarity) pairs that hold on EVERY syntactic path from the function entry to `target`."""
    ps = paths_to(fnode, target)
    if not ps:
        return []
    common = None
    for p in ps:
        here = {(id(t), pol) for t, pol in p.conds}
        common = here if common is None else (common & here)
    return [(t, pol) for t, pol in ps[0].conds if (id(t), pol) in common]


def valuer_for_path(path, base_env, honest=True):
    """Valuer with the path's conditions assumed and its assignments bound (in order).  Raises NeedCase /
    Contradiction / Undecidable like Valuer.val."""
    v = Valuer(base_env)
    order = []
    ci = 0
    # interleave: conditions are assumed first (they mention parameters), then assignments in order;
    # a condition mentioning an assigned local is re-assumed after the assignment
    pre_assume(v, path)
    replay(v, path)
    return v
