"""Values returned by an operator method for each operand kind, independent of how the dispatch is written.

`returns_by_kind(fi, param, kinds)` enumerates the syntactic paths to every `return`, keeps those whose isinstance
tests on `param` are consistent with the operand kind, substitutes the locals assigned on the way (in order) and folds
conditional expressions on isinstance tests.  The result texts are what rules compare - `if isinstance(o, int): res =
self * (1 << o); return res`, a guard clause followed by `factor = (1 << o) if isinstance(o, int) else 2 ** o; return
self * factor` and a tuple isinstance all normalise to the same thing.
"""
import ast

from .flatten import _Subst
from .hints import paths_to
from .loader import clone, norm, parents


def static_isinstance(test, param, typenames):
    """truth of a test made of isinstance(param, T...) / not / and / or for an operand whose class is one of typenames;
    None when the test is about something else"""
    if isinstance(test, ast.UnaryOp) and isinstance(test.op, ast.Not):
        v = static_isinstance(test.operand, param, typenames)
        return None if v is None else not v
    if isinstance(test, ast.BoolOp):
        vals = [static_isinstance(v, param, typenames) for v in test.values]
        if isinstance(test.op, ast.And):
            if any(v is False for v in vals):
                return False
            return True if all(v is True for v in vals) else None
        if any(v is True for v in vals):
            return True
        return False if all(v is False for v in vals) else None
    if isinstance(test, ast.Call) and norm(test.func) == "isinstance" and len(test.args) == 2 and norm(test.args[0]) == param:
        ts = test.args[1].elts if isinstance(test.args[1], (ast.Tuple, ast.List)) else [test.args[1]]
        names = {norm(t).split(".")[-1] for t in ts}
        return bool(names & set(typenames))
    return None


class _FoldIfExp(ast.NodeTransformer):
    def __init__(self, param, typenames):
        self.param, self.typenames = param, typenames

    def visit_IfExp(self, n):
        self.generic_visit(n)
        v = static_isinstance(n.test, self.param, self.typenames)
        if v is True:
            return n.body
        if v is False:
            return n.orelse
        return n


def expr_by_kind(fi, at, expr, param, kinds):
    """{kind: [resolved `expr` as evaluated at node `at`]} over the paths to `at` that an operand of that kind can take"""
    out = {k: [] for k in kinds}
    for path in paths_to(fi.node, at):
        for kind, typenames in kinds.items():
            feasible = True
            env = {}
            for st in path.steps:
                if st[0] == "cond":
                    t = _FoldIfExp(param, typenames).visit(_Subst(env).visit(clone(st[1]))) if env else st[1]
                    v = static_isinstance(t, param, typenames)
                    if v is not None and v != st[2]:
                        feasible = False
                        break
                else:
                    val = _FoldIfExp(param, typenames).visit(_Subst(env).visit(clone(st[2])))
                    if st[1] == param:
                        continue
                    env[st[1]] = val
            if feasible:
                out[kind].append(_FoldIfExp(param, typenames).visit(_Subst(env).visit(clone(expr))))
    return out


def identity_on(fi, param, typenames):
    """every return an operand of this class can reach hands the operand back unchanged"""
    r = returns_by_kind(fi, param, {"k": tuple(typenames)})["k"]
    return bool(r) and all(norm(e) == param for _r, e in r)


def returns_by_kind(fi, param, kinds, rebind=False):
    """{kind: [(return node, resolved expression)]}   kinds: {kind name: tuple of class names the operand is an instance of}
    rebind: a re-binding of the operand itself (val = scale(val)) is substituted like any other local (the isinstance tests
    are then only meaningful ahead of it - fine for converters that test first and convert inside the arm)"""
    out = {k: [] for k in kinds}
    rets = [n for n in ast.walk(fi.node) if isinstance(n, ast.Return) and n.value is not None and not any(
        isinstance(p, (ast.FunctionDef, ast.Lambda)) and p is not fi.node for p in parents(n))]
    for r in rets:
        for path in paths_to(fi.node, r):
            for kind, typenames in kinds.items():
                feasible = True
                env = {}
                for st in path.steps:
                    if st[0] == "cond":
                        t = _FoldIfExp(param, typenames).visit(_Subst(env).visit(clone(st[1]))) if env else st[1]
                        v = static_isinstance(t, param, typenames)
                        if v is not None and v != st[2]:
                            feasible = False
                            break
                    else:
                        val = _FoldIfExp(param, typenames).visit(_Subst(env).visit(clone(st[2])))
                        if st[1] == param and not rebind:
                            continue          # re-binding of the operand itself (other = ConstVal(other)): keep the name
                        env[st[1]] = val
                if not feasible:
                    continue
                e = _FoldIfExp(param, typenames).visit(_Subst(env).visit(clone(r.value)))
                out[kind].append((r, e))
    return out
