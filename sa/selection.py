"""Symbolic execution of the backend-selection code of pysnark.runtime (module level, over an abstract registry row).

The selection code is control flow over a constant table.  It is executed symbolically - no repository code runs -
over *abstract* registry rows: a loop over the registry is entered with a symbolic row (two iterations are explored:
the first one and one more from the aged state of every fall-through, which is enough to expose "does not stop at the
first hit" and "name from an earlier row"), imports and `get_ipython()` fork into success and failure, tests on
`sys.modules`, `os.environ` and `backend is None` fork or are decided from the abstract values.  Module-level helper
functions called from the selection code are executed in place (locals are kept apart from module globals).

The result is a list of outcomes (final abstract values of `backend_name` / `backend`, the decisions taken, the
events) on which C19's rules are stated; the shape of the code (inline stages, stage functions, break vs return,
row[0] vs tuple targets) does not matter.
"""
import ast
import re

from .loader import norm, AnalysisError

MAX_PATHS = 4000


class Unsupported(Exception):
    pass


class St:
    def __init__(self):
        self.env = {}          # module-level names
        self.frames = []       # local frames of helper functions being executed: (locals dict, globals-declared set)
        self.conds = []        # (atom, truth)
        self.events = []       # (kind, payload, node)
        self.loops = 0

    def copy(self):
        s = St()
        s.env = dict(self.env)
        s.frames = [(dict(l), set(g)) for l, g in self.frames]
        s.conds = list(self.conds)
        s.events = list(self.events)
        s.loops = self.loops
        return s

    def get(self, name):
        if self.frames and name in self.frames[-1][0]:
            return self.frames[-1][0][name]
        return self.env.get(name)

    def set(self, name, val):
        if self.frames and name not in self.frames[-1][1]:
            self.frames[-1][0][name] = val
        else:
            self.env[name] = val

    def decided(self, atom):
        for a, t in self.conds:
            if a == atom:
                return t
        return None


def is_modulish(v):
    return v[0] in ("preloaded", "imported", "modobj")


class Selector:
    def __init__(self, repo, module, regname, rows):
        self.repo = repo
        self.m = module
        self.regname = regname
        self.rows = rows
        self.fns = {n.name: n for n in module.tree.body if isinstance(n, ast.FunctionDef)}
        self.paths = 0
        self.unknown_tests = []

    # ------------------------------------------------------------------ expressions
    def ev(self, n, st):
        """[(state, value)] - evaluation may fork (imports) or raise (value None and state.raised set)"""
        if isinstance(n, ast.UnaryOp) and isinstance(n.op, ast.USub) and isinstance(n.operand, ast.Constant) and isinstance(n.operand.value, int):
            return [(st, ("const", -n.operand.value))]
        if isinstance(n, ast.Constant):
            if n.value is None:
                return [(st, ("none",))]
            return [(st, ("const", n.value))]
        if isinstance(n, ast.Name):
            v = st.get(n.id)
            if v is not None:
                return [(st, v)]
            if n.id == self.regname:
                return [(st, ("registry",))]
            if n.id in self.fns:
                return [(st, ("fn", n.id))]        # a module-level function used as a value (a stage in a table of stages)
            return [(st, ("?", n.id))]
        if isinstance(n, ast.Tuple) or isinstance(n, ast.List):
            outs = [(st, [])]
            for e in n.elts:
                nxt = []
                for s, acc in outs:
                    if acc is None:
                        nxt.append((s, None))
                        continue
                    for s2, v in self.ev(e, s):
                        nxt.append((s2, None if v is None else acc + [v]))
                outs = nxt
            return [(s, ("tuple", tuple(acc)) if acc is not None else None) for s, acc in outs]
        if isinstance(n, ast.Attribute):
            t = norm(n)
            if t in self.repo.modules:
                return [(st, ("modobj", t))]
            if t == "sys.modules":
                return [(st, ("sysmodules",))]
            if t == "os.environ":
                return [(st, ("environ",))]
            return [(st, ("?", t))]
        if isinstance(n, ast.Subscript) and isinstance(n.slice, ast.Slice) and isinstance(n.value, ast.Name) and n.value.id == self.regname \
                and all(b is None or (isinstance(b, ast.Constant) and isinstance(b.value, int) and not isinstance(b.value, bool))
                        or (isinstance(b, ast.UnaryOp) and isinstance(b.op, ast.USub) and isinstance(b.operand, ast.Constant)
                            and isinstance(b.operand.value, int))
                        for b in (n.slice.lower, n.slice.upper, n.slice.step)):
            # a slice of the registry with literal bounds: the whole table when the bounds say so, otherwise a table with rows
            # left out or in another order (reported like a re-ordered scan: 'first match' no longer means the first registry row)
            def lit(b):
                return None if b is None else ast.literal_eval(b)
            rows = list(range(len(self.rows)))
            same = rows[slice(lit(n.slice.lower), lit(n.slice.upper), lit(n.slice.step))] == rows
            return [(st, ("registry",) if same else ("registry", "slice %s" % norm(n)[:30]))]
        if isinstance(n, ast.Subscript):
            out = []
            for s, base in self.ev(n.value, st):
                if base is None:
                    out.append((s, None))
                    continue
                for s2, idx in self.ev(n.slice, s):
                    if idx is None:
                        out.append((s2, None))
                        continue
                    out.append((s2, self.subscript(base, idx, n)))
            return out
        if isinstance(n, ast.Call):
            return self.call(n, st)
        if isinstance(n, ast.GeneratorExp) and len(n.generators) == 1:
            # a generator expression over the registry computes nothing until it is consumed: next() pulls one row at a time
            o0 = self.ev(n.generators[0].iter, st)
            if len(o0) == 1 and o0[0][1] is not None and o0[0][1][0] == "registry":
                return [(st, ("lazygen", n))]
        if isinstance(n, (ast.ListComp, ast.GeneratorExp)) and len(n.generators) == 1:
            r = self.comprehension(n, st)
            if r is not None:
                return r
        if (isinstance(n, ast.Compare) and len(n.ops) == 1 and isinstance(n.ops[0], (ast.Is, ast.IsNot, ast.In, ast.NotIn))) or (
                isinstance(n, ast.UnaryOp) and isinstance(n.op, ast.Not)):
            # a test kept in a variable (preloaded = ... is not None): its truth value, decided as a branch would decide it
            try:
                return [(s, ("const", bool(tr))) for s, tr in self.branch(n, st)]
            except Unsupported:
                pass
        if isinstance(n, ast.IfExp):
            # a conditional expression evaluates its test, then ONE of its arms
            try:
                out = []
                for s, tr in self.branch(n.test, st):
                    if getattr(s, "raised", None):
                        out.append((s, None))
                    else:
                        out += self.ev(n.body if tr else n.orelse, s)
                return out
            except Unsupported:
                pass
        if isinstance(n, (ast.BinOp, ast.JoinedStr, ast.Compare, ast.BoolOp, ast.UnaryOp, ast.IfExp)):
            # string building for messages etc.: evaluate calls inside for their effects, value unknown
            outs = [st]
            for c in ast.iter_child_nodes(n):
                if isinstance(c, ast.expr):
                    outs = [s2 for s in outs for s2, _v in self.ev(c, s)]
            return [(s, ("?", norm(n)[:40])) for s in outs]
        return [(st, ("?", norm(n)[:40]))]

    def _age(self, x, L):
        def av(v):
            if isinstance(v, tuple) and len(v) == 3 and v[1] == L and v[2] == "cur" and v[0] in ("row", "rowname", "rowmod", "preloaded", "imported"):
                return (v[0], v[1], "stale")
            if isinstance(v, tuple) and v and v[0] == "tuple":
                return ("tuple", tuple(av(e) for e in v[1]))
            if isinstance(v, tuple) and v and v[0] == "rowlist":
                return ("rowlist", tuple(av(e) for e in v[1]))
            return v
        y = x.copy()
        y.env = {k: av(v) for k, v in y.env.items()}
        y.frames = [({k: av(v) for k, v in l.items()}, g) for l, g in y.frames]
        y.conds = [((a[0], a[1], "stale") if len(a) == 3 and a[1] == L and a[2] == "cur" else a, t) for a, t in y.conds]
        return y, av

    def comprehension(self, n, st):
        """[ELT for T in REGISTRY if ...]: evaluated like a loop that never breaks (two symbolic iterations); the value is
        the list of the element values of the explored iterations"""
        g = n.generators[0]
        outs0 = self.ev(g.iter, st)
        if len(outs0) != 1 or outs0[0][1] is None or outs0[0][1][0] != "registry":
            return None
        st = st.copy()
        st.loops += 1
        L = st.loops
        st.events.append(("eager-scan", L, n))

        def iteration(x):
            x = self.assign(g.target, ("row", L, "cur"), x, n)
            cur = [x]
            for t in g.ifs:
                cur = [s2 for s in cur for s2, tr in self.branch(t, s) if tr]
            res = []
            for s in cur:
                for s2, v in self.ev(n.elt, s):
                    res.append((s2, v))
            return res
        results = [(st, ("rowlist", ()))]
        for s1, v1 in iteration(st):
            if v1 is None:
                results.append((s1, None))
                continue
            results.append((s1, ("rowlist", (v1,))))
            a1, av = self._age(s1, L)
            for s2, v2 in iteration(a1):
                results.append((s2, ("rowlist", (av(v1), v2)) if v2 is not None else None))
        return results

    def next_call(self, n, st):
        """next((ELT for T in ROWLIST if COND), DEFAULT): the first element that passes, else the default"""
        gen = n.args[0]
        if not (isinstance(gen, ast.GeneratorExp) and len(gen.generators) == 1):
            return None
        g = gen.generators[0]
        outs = []
        for s, lst in self.ev(g.iter, st):
            if lst is not None and lst[0] == "lazygen":
                outs += self.lazy_next(n, s, gen, lst[1])
                continue
            if lst is not None and lst[0] == "registry" and len(lst) == 1:
                outs += self.lazy_next(n, s, gen, None)
                continue
            if lst is None or lst[0] != "rowlist":
                return None
            pending = [s]
            for elem in lst[1]:
                nxt = []
                for s1 in pending:
                    s1 = self.assign(g.target, elem, s1, n)
                    cur = [(s1, True)]
                    for t in g.ifs:
                        cur = [(s3, tr and tr2) for s2, tr in cur for s3, tr2 in (self.branch(t, s2) if tr else [(s2, False)])]
                    for s2, tr in cur:
                        if tr:
                            outs += self.ev(gen.elt, s2)
                        else:
                            nxt.append(s2)
                pending = nxt
            for s1 in pending:
                if len(n.args) > 1:
                    outs += self.ev(n.args[1], s1)
                else:
                    s1 = s1.copy()
                    s1.raised = ("StopIteration", n)
                    outs.append((s1, None))
        return outs

    def lazy_next(self, n, st, outer, inner):
        """next((OUTER_ELT for T in SRC if C), DEFAULT) where SRC is the registry itself (inner None) or a generator expression
        over the registry (inner): rows are pulled one at a time - two symbolic rounds with ageing, as for a loop with break -
        and nothing is evaluated for the rows after the first element that passes."""
        st = st.copy()
        st.loops += 1
        L = st.loops
        og = outer.generators[0]

        def pull(x):
            """[(state, element or None, skipped)]"""
            if inner is None:
                return [(x, ("row", L, "cur"), False)]
            ig = inner.generators[0]
            x = self.assign(ig.target, ("row", L, "cur"), x, inner)
            cur = [(x, True)]
            for t in ig.ifs:
                cur = [(s3, tr and tr2) for s2, tr in cur for s3, tr2 in (self.branch(t, s2) if tr else [(s2, False)])]
            res = []
            for s2, tr in cur:
                if not tr:
                    res.append((s2, None, True))
                    continue
                for s3, v in self.ev(inner.elt, s2):
                    res.append((s3, v, False))
            return res

        def iteration(x):
            """([(state, value)] finished, [state] to go on with)"""
            done, falls = [], []
            for s2, v, skipped in pull(x):
                if skipped:
                    falls.append(s2)
                    continue
                if v is None:
                    done.append((s2, None))
                    continue
                s2 = self.assign(og.target, v, s2, outer)
                cur = [(s2, True)]
                for t in og.ifs:
                    cur = [(s4, tr and tr2) for s3, tr in cur for s4, tr2 in (self.branch(t, s3) if tr else [(s3, False)])]
                for s3, tr in cur:
                    if tr:
                        done += self.ev(outer.elt, s3)
                    else:
                        falls.append(s3)
            return done, falls
        outs = []
        exhausted = [st]
        d1, f1 = iteration(st)
        outs += d1
        for f in f1:
            exhausted.append(f)
            a1, _av = self._age(f, L)
            d2, f2 = iteration(a1)
            outs += d2
            exhausted += f2
        for e in exhausted:
            e2 = e.copy()
            e2.events.append(("exhausted", L, n))
            if len(n.args) > 1:
                outs += self.ev(n.args[1], e2)
            else:
                e2.raised = ("StopIteration", n)
                outs.append((e2, None))
        return outs

    def subscript(self, base, idx, node):
        if base[0] == "row" and idx[0] == "const" and idx[1] in (0, 1):
            return ("rowname" if idx[1] == 0 else "rowmod", base[1], base[2])
        if base[0] == "registry" and idx[0] == "const" and isinstance(idx[1], int) and -len(self.rows) <= idx[1] < len(self.rows):
            return ("constrow", idx[1] % len(self.rows))
        if base[0] == "constrow" and idx[0] == "const" and idx[1] in (0, 1):
            return ("const", self.rows[base[1]][idx[1]])
        if base[0] == "sysmodules":
            if idx[0] == "rowmod":
                return ("preloaded", idx[1], idx[2])
            if idx[0] == "const" and idx[1] in self.repo.modules:
                return ("modobj", idx[1])
            return ("?", "sys.modules[%s]" % (idx,))
        if base[0] == "environ":
            return ("envval", idx[1] if idx[0] == "const" else "?")
        if base[0] == "tuple" and idx[0] == "const" and isinstance(idx[1], int) and -len(base[1]) <= idx[1] < len(base[1]):
            return base[1][idx[1]]
        if base[0] == "regdict" and idx[0] == "rowname":
            return ("rowmod", idx[1], idx[2])
        return ("?", norm(node)[:40])

    def call(self, n, st):
        f = norm(n.func)
        short = f.split(".")[-1]
        if short == "import_module" and len(n.args) == 1:
            out = []
            for s, a in self.ev(n.args[0], st):
                if a is None:
                    out.append((s, None))
                    continue
                ok, bad = s.copy(), s.copy()
                if a[0] == "rowmod" and s.decided(("in_sysmodules", a[1], a[2])) is True:
                    # import_module of a module that is loaded already hands back the sys.modules entry: nothing is imported
                    out.append((s, ("preloaded", a[1], a[2])))
                    continue
                if a[0] == "rowmod":
                    key = ("import_ok", a[1], a[2])
                    val = ("imported", a[1], a[2])
                elif a[0] == "const":
                    key = ("import_ok_const", a[1])
                    val = ("modobj", a[1]) if a[1] in self.repo.modules else ("?", "import %s" % a[1])
                else:
                    key = ("import_ok_other", norm(n.args[0]))
                    val = ("importedother", norm(n.args[0]), a)
                d = s.decided(key)
                if d is not False:
                    if d is None:
                        ok.conds.append((key, True))
                    ok.events.append(("decide", (key, True), n))
                    ok.events.append(("import", key, n))
                    out.append((ok, val))
                if d is not True:
                    if d is None:
                        bad.conds.append((key, False))
                    bad.events.append(("decide", (key, False), n))
                    bad.events.append(("import-failed", key, n))
                    bad.raised = ("ImportError", n)
                    out.append((bad, None))
            return out
        if f == "get_ipython" and not n.args:
            ok, bad = st.copy(), st.copy()
            d = st.decided(("ipython",))
            out = []
            if d is not False:
                if d is None:
                    ok.conds.append((("ipython",), True))
                ok.events.append(("decide", (("ipython",), True), n))
                out.append((ok, ("?", "ipython")))
            if d is not True:
                if d is None:
                    bad.conds.append((("ipython",), False))
                bad.events.append(("decide", (("ipython",), False), n))
                bad.raised = ("NameError", n)
                out.append((bad, None))
            return out
        if short in ("print", "warn", "write", "warning", "error") or f in ("warnings.warn", "sys.stderr.write", "logging.warning"):
            outs = [st]
            for a in list(n.args) + [k.value for k in n.keywords]:
                outs = [s2 for s in outs for s2, _v in self.ev(a, s)]
            res = []
            for s in outs:
                if getattr(s, "raised", None):
                    res.append((s, None))
                else:
                    s = s.copy()
                    # a report the user sees: print / write, or a warning of a category that Python's DEFAULT filters show.
                    # DeprecationWarning (outside __main__), PendingDeprecationWarning, ImportWarning and ResourceWarning are
                    # ignored by default; logging below WARNING is dropped by the default logger configuration.
                    hidden = None
                    if short == "warn":
                        cat = n.args[1] if len(n.args) > 1 else next((k.value for k in n.keywords if k.arg == "category"), None)
                        if cat is not None and norm(cat).split(".")[-1] in ("ImportWarning", "DeprecationWarning", "PendingDeprecationWarning",
                                                                             "ResourceWarning"):
                            hidden = norm(cat).split(".")[-1]
                    if short in ("debug", "info") and norm(n.func).startswith("logging."):
                        hidden = "logging." + short
                    if hidden is None:
                        s.events.append(("report", norm(n)[:80], n))
                    else:
                        s.events.append(("hidden-report", hidden, n))
                    res.append((s, ("none",)))
            return res
        if short in ("strip", "lower", "casefold", "lstrip", "rstrip") and isinstance(n.func, ast.Attribute) and not n.args and not n.keywords:
            # normalising the user's spelling keeps it the user's value; a registry name that is already in normal form (all of
            # them are lower-case without blanks - checked here) is unchanged by it
            res = []
            for s, v in self.ev(n.func.value, st):
                if v is not None and v[0] == "envval":
                    res.append((s, v))
                elif v is not None and v[0] == "rowname" and all(isinstance(r_[0], str) and r_[0] == r_[0].strip().lower() for r_ in self.rows):
                    res.append((s, v))
                elif v is None:
                    res.append((s, None))
                else:
                    res.append((s, ("?", norm(n)[:40])))
            return res
        if f == "dict" and len(n.args) == 1 and isinstance(n.args[0], ast.Name) and n.args[0].id == self.regname and not n.keywords:
            # the registry as a mapping name -> module (names are unique: R-C19-1)
            return [(st, ("regdict",))]
        if f == "sys.modules.get" and len(n.args) in (1, 2) and not n.keywords and (len(n.args) == 1 or norm(n.args[1]) == "None"):
            # sys.modules.get(M): the loaded module, or None - the same question as `M in sys.modules` (a None entry, which blocks
            # an import, counts as not loaded here)
            res = []
            for s, a in self.ev(n.args[0], st):
                if a is None:
                    res.append((s, None))
                elif a[0] == "rowmod":
                    for s2, tr in self.fork(("in_sysmodules", a[1], a[2]), s, n):
                        res.append((s2, ("preloaded", a[1], a[2]) if tr else ("none",)))
                elif a[0] == "const":
                    for s2, tr in self.fork(("in_sysmodules_const", a[1]), s, n):
                        res.append((s2, (("modobj", a[1]) if a[1] in self.repo.modules else ("?", "sys.modules[%s]" % a[1])) if tr else ("none",)))
                else:
                    res.append((s, ("?", norm(n)[:40])))
            return res
        if short in ("find_spec", "find_loader", "which") and f not in self.fns and not n.keywords:
            # looking for a package / an executable imports nothing and binds nothing: an unknown answer (tests on it fork)
            outs = [st]
            for a in list(n.args):
                outs = [s2 for s in outs for s2, _v in self.ev(a, s)]
            return [(s, None if getattr(s, "raised", None) else ("?", norm(n)[:40])) for s in outs]
        if short in ("str", "repr", "format", "lower", "upper", "strip", "get", "startswith", "endswith") and f not in self.fns:
            outs = [st]
            for a in list(n.args):
                outs = [s2 for s in outs for s2, _v in self.ev(a, s)]
            if short == "get" and norm(n.func).endswith("environ.get") and n.args:
                return [(s, ("envval", n.args[0].value if isinstance(n.args[0], ast.Constant) else "?")) for s in outs]
            return [(s, ("?", norm(n)[:40])) for s in outs]
        if short == "join" and isinstance(n.func, ast.Attribute) and isinstance(n.func.value, ast.Constant) \
                and isinstance(n.func.value.value, str) and len(n.args) == 1 and not n.keywords \
                and not any(isinstance(x, (ast.Call, ast.Await, ast.Yield, ast.NamedExpr)) for x in ast.walk(n.args[0])):
            # ", ".join(name for name, _ in table): message text put together from names; nothing is called, imported or bound
            return [(st, ("?", "joined text"))]
        if f == "len" and len(n.args) == 1 and not n.keywords:
            outs = self.ev(n.args[0], st)
            return [(s, None if v is None else (("const", len(v[1])) if v[0] in ("tuple", "set") else ("?", "len(%s)" % norm(n.args[0])[:30]))) for s, v in outs]
        if f == "set" and not n.args and not n.keywords:
            return [(st, ("set", ()))]
        if short == "add" and isinstance(n.func, ast.Attribute) and isinstance(n.func.value, ast.Name) and len(n.args) == 1 \
                and not n.keywords and st.get(n.func.value.id) is not None and st.get(n.func.value.id)[0] == "set":
            res = []
            for s, v in self.ev(n.args[0], st):
                if v is None:
                    res.append((s, None))
                    continue
                s = s.copy()
                s.set(n.func.value.id, ("set", tuple(s.get(n.func.value.id)[1]) + (v,)))
                res.append((s, ("none",)))
            return res
        if short == "append" and isinstance(n.func, ast.Attribute) and isinstance(n.func.value, ast.Name) \
                and len(n.args) == 1 and not n.keywords and st.get(n.func.value.id) is not None \
                and st.get(n.func.value.id)[0] == "tuple":
            # a local list collecting names (for a message): the list grows by the value
            res = []
            for s, v in self.ev(n.args[0], st):
                if v is None:
                    res.append((s, None))
                    continue
                s = s.copy()
                s.set(n.func.value.id, ("tuple", tuple(s.get(n.func.value.id)[1]) + (v,)))
                res.append((s, ("none",)))
            return res
        if f == "next" and n.args and not n.keywords:
            r = self.next_call(n, st)
            if r is not None:
                return r
        if short in ("reversed", "sorted", "list", "tuple", "iter") and len(n.args) >= 1 and isinstance(n.args[0], ast.Name) \
                and n.args[0].id == self.regname:
            return [(st, ("registry",) if short in ("list", "tuple", "iter") else ("registry", short))]
        fnv = st.get(n.func.id) if isinstance(n.func, ast.Name) else None
        if isinstance(n.func, ast.Name) and (n.func.id in self.fns or (fnv is not None and fnv[0] == "fn" and fnv[1] in self.fns)) and not n.keywords:
            fn = self.fns[fnv[1]] if (fnv is not None and fnv[0] == "fn") else self.fns[n.func.id]
            if len(fn.args.args) != len(n.args) or fn.args.vararg or fn.args.kwarg:
                raise Unsupported("call of %s with unsupported arguments" % fn.name)
            outs = [(st, [])]
            for a in n.args:
                outs = [(s2, acc + [v]) for s, acc in outs for s2, v in self.ev(a, s)]
            res = []
            for s, vals in outs:
                if getattr(s, "raised", None):
                    res.append((s, None))
                    continue
                s = s.copy()
                gl = {g for x in ast.walk(fn) if isinstance(x, ast.Global) for g in x.names}
                s.frames.append((dict(zip([a.arg for a in fn.args.args], vals)), gl))
                for s2, status, payload in self.block(fn.body, s):
                    s2.frames = s2.frames[:-1]
                    if status == "raise":
                        res.append((s2, None))
                    elif status == "return":
                        res.append((s2, payload if payload is not None else ("none",)))
                    elif status == "normal":
                        res.append((s2, ("none",)))
                    else:
                        raise Unsupported("break/continue escaping %s" % fn.name)
            return res
        raise Unsupported("call %s" % f)

    # ------------------------------------------------------------------ tests
    def branch(self, t, st):
        """[(state, truth)]"""
        if isinstance(t, ast.UnaryOp) and isinstance(t.op, ast.Not):
            return [(s, not tr) for s, tr in self.branch(t.operand, st)]
        if isinstance(t, ast.BoolOp):
            outs = [(st, None)]
            is_and = isinstance(t.op, ast.And)
            for v in t.values:
                nxt = []
                for s, tr in outs:
                    if tr is not None and tr != is_and:
                        nxt.append((s, tr))            # short-circuited
                        continue
                    nxt += self.branch(v, s)
                outs = nxt
            return outs
        if isinstance(t, ast.Compare) and len(t.ops) == 1:
            op = t.ops[0]
            out = []
            for s, a in self.ev(t.left, st):
                for s2, b in self.ev(t.comparators[0], s):
                    if a is None or b is None:
                        raise Unsupported("raising expression inside a test: %s" % norm(t))
                    out += self.compare(op, a, b, s2, t)
            return out
        out = []
        for s, v in self.ev(t, st):
            if v is None:
                raise Unsupported("raising expression inside a test: %s" % norm(t))
            if v[0] == "none":
                out.append((s, False))
            elif is_modulish(v):
                out.append((s, True))
            elif v[0] == "const" and isinstance(v[1], (bool, int)):
                out.append((s, bool(v[1])))
            elif v[0] == "tuple":
                out.append((s, len(v[1]) > 0))
            else:
                out += self.fork(("?", norm(t)), s, t)
        return out

    def fork(self, atom, st, node):
        d = st.decided(atom)
        if d is not None:
            return [(st, d)]
        if atom[0] == "?":
            self.unknown_tests.append((atom[1], node))
        a, b = st.copy(), st.copy()
        a.conds.append((atom, True))
        b.conds.append((atom, False))
        a.events.append(("decide", (atom, True), node))
        b.events.append(("decide", (atom, False), node))
        return [(a, True), (b, False)]

    def compare(self, op, a, b, st, node):
        if isinstance(op, (ast.Is, ast.IsNot, ast.Eq, ast.NotEq)) and (a[0] == "none" or b[0] == "none"):
            other = b if a[0] == "none" else a
            pos = isinstance(op, (ast.Is, ast.Eq))
            if other[0] == "none":
                return [(st, pos)]
            if is_modulish(other) or other[0] in ("const", "rowname", "rowmod", "tuple", "rowlist", "row"):
                return [(st, not pos)]
            if other[0] == "envval" and other[1] != "?":
                # os.environ.get(K) is None exactly when K is not set
                return [(s, (not tr) if pos else tr) for s, tr in self.fork(("env_set", other[1]), st, node)]
            return [(s, tr if pos else not tr) for s, tr in self.fork(("isnone", other), st, node)]
        if isinstance(op, (ast.In, ast.NotIn)) and b[0] == "set":
            pos = isinstance(op, ast.In)
            if not b[1]:
                return [(st, not pos)]              # nothing is in an empty set
            # `<table>.get(<name of the current row>) in <names that failed so far>`: the row is derived from one that failed.
            # By the lemma checked in R-C19-9 (every entry of the table: the derived module imports its base's module first),
            # importing it would fail the same way - the skip is a failed import that is not attempted.
            m_ = re.match(r"^(\w+)\.get\((\w+)\)$", a[1]) if a[0] == "?" and isinstance(a[1], str) else None
            cur = st.get(m_.group(2)) if m_ else None
            if m_ and cur is not None and cur[0] == "rowname" and cur[2] == "cur" and all(x[0] == "rowname" for x in b[1]):
                key = ("import_ok", cur[1], cur[2])
                out = []
                for s2, tr in self.fork(("derived_base_failed", m_.group(1), cur[1], cur[2]), st, node):
                    if tr:
                        s2 = s2.copy()
                        if s2.decided(key) is None:
                            s2.conds.append((key, False))
                        s2.events.append(("derived-skip", m_.group(1), node))
                        s2.events.append(("import-failed", key, node))
                    out.append((s2, tr if pos else not tr))
                return out
            return [(s, tr if pos else not tr) for s, tr in self.fork(("?", norm(node)), st, node)]
        if isinstance(op, (ast.In, ast.NotIn)) and b[0] == "regdict" and a[0] == "envval" and a[1] != "?":
            # the user's value looked up among the registry names: it names at most one row (names are unique).  On the positive
            # outcome the value IS that row's name - a fresh abstract row, of which nothing else is known; on the negative one no
            # row matches (the table has been searched completely)
            pos = isinstance(op, ast.In)
            out = []
            for s2, tr in self.fork(("env_eq", "named", "cur"), st, node):
                if tr:
                    s2 = s2.copy()
                    for fr in [s2.env] + [f_[0] for f_ in getattr(s2, "frames", [])]:
                        for k_, v_ in list(fr.items()):
                            if v_ == a:
                                fr[k_] = ("rowname", "named", "cur")
                else:
                    s2 = s2.copy()
                    s2.events.append(("exhausted", "registry lookup", node))
                out.append((s2, tr if pos else not tr))
            return out
        if isinstance(op, (ast.In, ast.NotIn)):
            pos = isinstance(op, ast.In)
            if b[0] == "sysmodules" and a[0] == "rowmod":
                return [(s, tr if pos else not tr) for s, tr in self.fork(("in_sysmodules", a[1], a[2]), st, node)]
            if b[0] == "sysmodules" and a[0] == "const":
                return [(s, tr if pos else not tr) for s, tr in self.fork(("in_sysmodules_const", a[1]), st, node)]
            if b[0] == "environ" and a[0] == "const":
                return [(s, tr if pos else not tr) for s, tr in self.fork(("env_set", a[1]), st, node)]
        if isinstance(op, (ast.Eq, ast.NotEq)) and a[0] == "const" and b[0] == "const":
            return [(st, (a[1] == b[1]) == isinstance(op, ast.Eq))]
        if isinstance(op, (ast.Eq, ast.NotEq)):
            pos = isinstance(op, ast.Eq)
            x, y = (a, b) if a[0] == "envval" else (b, a)
            if x[0] == "envval" and x[1] != "?" and st.decided(("env_set", x[1])) is False and y[0] in ("rowname", "const"):
                return [(st, not pos)]          # the variable is not set: its value (None) equals no name
            if x[0] == "envval" and y[0] == "rowname":
                # names are unique (R-C19-1): at most one row matches
                for (at, tr) in st.conds:
                    if at[0] == "env_eq" and at[1] == y[1] and at[2] == "stale" and tr:
                        return [(st, not pos)]
                return [(s, tr if pos else not tr) for s, tr in self.fork(("env_eq", y[1], y[2]), st, node)]
            if x[0] == "envval" and y[0] == "const":
                return [(s, tr if pos else not tr) for s, tr in self.fork(("env_eq_const", y[1]), st, node)]
        return self.fork(("?", norm(node)), st, node)

    # ------------------------------------------------------------------ statements
    def assign(self, target, val, st, node):
        if isinstance(target, ast.Name):
            st = st.copy()
            if target.id == "backend":
                cur = st.get("backend")
                st.events.append(("set_backend", (val, cur is not None and cur[0] != "none" and val[0] != "none"), node))
            elif target.id == "backend_name":
                st.events.append(("set_name", val, node))
            st.set(target.id, val)
            return st
        if isinstance(target, (ast.Tuple, ast.List)):
            if val[0] == "tuple" and len(val[1]) == len(target.elts):
                for t, v in zip(target.elts, val[1]):
                    st = self.assign(t, v, st, node)
                return st
            if val[0] == "row" and len(target.elts) == 2:
                st = self.assign(target.elts[0], ("rowname", val[1], val[2]), st, node)
                return self.assign(target.elts[1], ("rowmod", val[1], val[2]), st, node)
            for t in target.elts:
                st = self.assign(t, ("?", "unpack"), st, node)
            return st
        return st         # attribute / subscript stores do not concern the selection

    def block(self, stmts, st):
        """[(state, status, payload)]  status in normal / break / continue / return / raise"""
        cur = [st]
        done = []
        for s in stmts:
            nxt = []
            for c in cur:
                for s2, status, payload in self.stmt(s, c):
                    self.paths += 1
                    if self.paths > MAX_PATHS:
                        raise Unsupported("too many paths")
                    if status == "normal":
                        nxt.append(s2)
                    else:
                        done.append((s2, status, payload))
            cur = nxt
            if not cur:
                break
        return [(c, "normal", None) for c in cur] + done

    def _raise_of(self, s):
        r = getattr(s, "raised", None)
        return r

    def stmt(self, s, st):
        if isinstance(s, (ast.FunctionDef, ast.ClassDef, ast.Pass, ast.Global)):
            return [(st, "normal", None)]
        if isinstance(s, (ast.Import, ast.ImportFrom)):
            return [(st, "normal", None)]
        if isinstance(s, ast.Expr):
            if isinstance(s.value, ast.Constant):
                return [(st, "normal", None)]
            return [((s2, "raise", self._raise_of(s2)) if v is None else (s2, "normal", None)) for s2, v in self.ev(s.value, st)]
        if isinstance(s, ast.Assign):
            out = []
            for s2, v in self.ev(s.value, st):
                if v is None:
                    out.append((s2, "raise", self._raise_of(s2)))
                    continue
                for t in s.targets:
                    s2 = self.assign(t, v, s2, s)
                out.append((s2, "normal", None))
            return out
        if isinstance(s, ast.AugAssign):
            return [(st, "normal", None)]
        if isinstance(s, ast.If):
            out = []
            for s2, tr in self.branch(s.test, st):
                out += self.block(s.body if tr else s.orelse, s2)
            return out
        if isinstance(s, ast.Break):
            return [(st, "break", None)]
        if isinstance(s, ast.Continue):
            return [(st, "continue", None)]
        if isinstance(s, ast.Return):
            if s.value is None:
                return [(st, "return", ("none",))]
            return [((s2, "raise", self._raise_of(s2)) if v is None else (s2, "return", v)) for s2, v in self.ev(s.value, st)]
        if isinstance(s, ast.Raise):
            st = st.copy()
            st.raised = ("raise", s)
            st.events.append(("report", "raise " + (norm(s.exc)[:60] if s.exc is not None else ""), s))
            return [(st, "raise", st.raised)]
        if isinstance(s, ast.Try):
            out = []
            for s2, status, payload in self.block(s.body, st):
                if status == "raise" and s.handlers:
                    s3 = s2.copy()
                    s3.caught = getattr(s2, "raised", None)
                    s3.events.append(("caught", getattr(s2, "raised", None), s))
                    s3.raised = None
                    for r in self.block(s.handlers[0].body, s3):
                        out.append(r)
                elif status == "normal" and s.orelse:
                    out += self.block(s.orelse, s2)
                else:
                    out.append((s2, status, payload))
            if s.finalbody:
                fin = []
                for s2, status, payload in out:
                    keep = getattr(s2, "raised", None)
                    s2.raised = None
                    for s3, st3, p3 in self.block(s.finalbody, s2):
                        if st3 == "normal":
                            s3.raised = keep
                            fin.append((s3, status, payload))
                        else:
                            fin.append((s3, st3, p3))
                out = fin
            return out
        if isinstance(s, ast.For) and isinstance(s.iter, (ast.Tuple, ast.List)) and 1 <= len(s.iter.elts) <= 6 and not s.orelse and all(
                isinstance(e, (ast.Name, ast.Constant)) for e in s.iter.elts):
            # a loop over a short literal of stage functions / constants: the iterations one after the other
            cur = [(st, "normal", None)]
            for e in s.iter.elts:
                nxt = []
                for s1, status, payload in cur:
                    if status != "normal":
                        nxt.append((s1, status, payload))
                        continue
                    for s2, v in self.ev(e, s1):
                        if v is None:
                            nxt.append((s2, "raise", None))
                            continue
                        s3 = self.assign(s.target, v, s2, s)
                        for s4, st4, p4 in self.block(s.body, s3):
                            if st4 == "continue":
                                nxt.append((s4, "normal", None))
                            elif st4 == "break":
                                nxt.append((s4, "broken", None))
                            else:
                                nxt.append((s4, st4, p4))
                cur = nxt
            return [(s1, "normal" if status == "broken" else status, payload) for s1, status, payload in cur]
        if isinstance(s, ast.For):
            return self.loop(s, st)
        if isinstance(s, ast.With):
            return self.block(s.body, st)
        raise Unsupported("statement %s" % type(s).__name__)

    def loop(self, s, st):
        outs0 = self.ev(s.iter, st)
        if len(outs0) != 1 or outs0[0][1] is None or outs0[0][1][0] != "registry":
            raise Unsupported("loop over %s" % norm(s.iter))
        st = st.copy()
        st.loops += 1
        L = st.loops
        if len(outs0[0][1]) > 1:
            st.events.append(("reordered", outs0[0][1][1], s))

        def age(x):
            def av(v):
                if isinstance(v, tuple) and len(v) == 3 and v[1] == L and v[2] == "cur" and v[0] in ("row", "rowname", "rowmod", "preloaded", "imported"):
                    return (v[0], v[1], "stale")
                if isinstance(v, tuple) and v and v[0] == "tuple":
                    return ("tuple", tuple(av(e) for e in v[1]))
                return v
            y = x.copy()
            y.env = {k: av(v) for k, v in y.env.items()}
            y.frames = [({k: av(v) for k, v in l.items()}, g) for l, g in y.frames]
            y.conds = [((a[0], a[1], "stale") if len(a) == 3 and a[1] == L and a[2] == "cur" else a, t) for a, t in y.conds]
            return y

        def iteration(x):
            x = self.assign(s.target, ("row", L, "cur"), x, s)
            return self.block(s.body, x)
        results, exhausted = [], [st]          # st itself: the registry could be empty
        falls = []
        for s2, status, payload in iteration(st):
            if status in ("normal", "continue"):
                falls.append(s2)
            elif status == "break":
                results.append((s2, "normal", None))
            else:
                results.append((s2, status, payload))
        for f in falls:
            exhausted.append(f)
            for s2, status, payload in iteration(age(f)):
                if status in ("normal", "continue"):
                    exhausted.append(s2)
                elif status == "break":
                    results.append((s2, "normal", None))
                else:
                    results.append((s2, status, payload))
        for e in exhausted:
            e2 = e.copy()
            e2.events.append(("exhausted", L, s))
            if s.orelse:
                results += self.block(s.orelse, e2)
            else:
                results.append((e2, "normal", None))
        return results


def _inline_generator_loops(stmts, fns):
    """`for T in G(): B  [else: E]` with G a module-level generator function without parameters is, by the semantics of generators,
       G's body with every statement `yield X` replaced by `T = X; B`, a `break` in B ending everything, and E run when G's body
       completes.  Written as a helper (executed in place by the executor):

           def __gen_G():  global <names bound by T and B> ;  <G's body, yields replaced;  break -> return 1>
           __r = __gen_G()
           if __r is None: E

       Only the statement form of `yield`, and loop bodies without `continue` / `return` / nested definitions, are rewritten."""
    from .loader import clone
    out = []
    for s in stmts:
        g = fns.get(s.iter.func.id) if isinstance(s, ast.For) and isinstance(s.iter, ast.Call) and isinstance(s.iter.func, ast.Name) \
            and not s.iter.args and not s.iter.keywords else None
        if g is None or g.args.args or not any(isinstance(x, ast.Yield) for x in ast.walk(g)):
            out.append(s)
            continue
        ys = [x for x in ast.walk(g) if isinstance(x, (ast.Yield, ast.YieldFrom))]
        stmt_yields = [x for x in ast.walk(g) if isinstance(x, ast.Expr) and isinstance(x.value, ast.Yield) and x.value.value is not None]
        if len(ys) != len(stmt_yields) or any(isinstance(x, (ast.Continue, ast.Return, ast.FunctionDef, ast.Lambda, ast.Yield)) for b in s.body for x in ast.walk(b)) \
                or any(isinstance(x, ast.Return) for x in ast.walk(g)):
            out.append(s)
            continue

        def body_copy():
            class _B(ast.NodeTransformer):
                depth = 0

                def visit_For(self, n):
                    self.depth += 1
                    self.generic_visit(n)
                    self.depth -= 1
                    return n
                visit_While = visit_For

                def visit_Break(self, n):
                    if self.depth == 0:
                        return ast.copy_location(ast.Return(value=ast.Constant(value=1)), n)
                    return n
            return [_B().visit(clone(b)) for b in s.body]

        class _Y(ast.NodeTransformer):
            def visit_Expr(self, n):
                if isinstance(n.value, ast.Yield):
                    tgt = clone(s.target)
                    for x in ast.walk(tgt):
                        if isinstance(x, ast.Name):
                            x.ctx = ast.Store()
                    return [ast.copy_location(ast.Assign(targets=[tgt], value=n.value.value), n)] + body_copy()
                return n
        names = sorted({x.id for x in ast.walk(s.target) if isinstance(x, ast.Name)} | {
            x.id for b in s.body for x in ast.walk(b) if isinstance(x, ast.Name) and isinstance(x.ctx, ast.Store)})
        gname = "__gen_%s" % g.name
        fn = ast.FunctionDef(name=gname, args=ast.arguments(posonlyargs=[], args=[], kwonlyargs=[], kw_defaults=[], defaults=[]),
                             body=[ast.Global(names=names)] + [_Y().visit(clone(b)) for b in g.body if not (
                                 isinstance(b, ast.Expr) and isinstance(b.value, ast.Constant))], decorator_list=[])
        # flatten lists produced by visit_Expr at statement level
        ast.copy_location(fn, s)
        ast.fix_missing_locations(fn)
        fns[gname] = fn
        call = ast.copy_location(ast.Assign(targets=[ast.Name(id="__r_" + g.name, ctx=ast.Store())],
                                            value=ast.Call(func=ast.Name(id=gname, ctx=ast.Load()), args=[], keywords=[])), s)
        out.append(call)
        if s.orelse:
            out.append(ast.copy_location(ast.If(test=ast.Compare(left=ast.Name(id="__r_" + g.name, ctx=ast.Load()), ops=[ast.Is()],
                                                                 comparators=[ast.Constant(value=None)]), body=s.orelse, orelse=[]), s))
        for o in out[-2:]:
            ast.fix_missing_locations(o)
    return out


def run_selection(repo, module, regname, regnode, rows):
    """Outcomes of the module-level code of `module` from the registry definition to the last statement that can still
    assign `backend` / `backend_name`."""
    body = module.tree.body
    start = body.index(regnode) + 1
    last = start - 1
    fnames = {n.name for n in body if isinstance(n, ast.FunctionDef)}

    def touches(n, seen=()):
        for x in ast.walk(n):
            if isinstance(x, ast.Name) and x.id in ("backend", "backend_name") and isinstance(x.ctx, ast.Store):
                return True
            if isinstance(x, ast.Call) and isinstance(x.func, ast.Name) and x.func.id in fnames and x.func.id not in seen:
                fn = [f for f in body if isinstance(f, ast.FunctionDef) and f.name == x.func.id][0]
                if any(isinstance(y, ast.Global) and ("backend" in y.names or "backend_name" in y.names) for y in ast.walk(fn)) \
                        and touches(fn, tuple(seen) + (x.func.id,)):
                    return True
        return False
    for i in range(start, len(body)):
        n = body[i]
        if isinstance(n, (ast.FunctionDef, ast.ClassDef)):
            continue
        if touches(n):
            last = i
    if last < start:
        raise AnalysisError("no module-level statement assigns `backend` after the registry")
    sel = Selector(repo, module, regname, rows)
    st = St()
    # module-level bindings before the registry (backend = None ...)
    for n in body[:start]:
        if isinstance(n, ast.Assign) and len(n.targets) == 1 and isinstance(n.targets[0], ast.Name) and isinstance(n.value, ast.Constant):
            st.env[n.targets[0].id] = ("none",) if n.value.value is None else ("const", n.value.value)
    stmts = [n for n in body[start:last + 1]]
    stmts = _inline_generator_loops(stmts, sel.fns)
    try:
        outs = sel.block(stmts, st)
    except Unsupported as e:
        raise AnalysisError("backend selection code not interpretable: %s" % e)
    return sel, outs, stmts
