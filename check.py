#!/venv/bin/python
"""Entry point:  check.py <Cxx> [--tier quick|thorough] [--repo DIR] [--replay FILE]

Exit 0: property held on every rule instance (known findings are printed as
        KNOWN-FINDING lines);
exit 1: `VIOLATION property=<id> replay=<path>` for every violation that
        known_findings.txt does not list;
exit 2: ANALYSIS-ERROR (the tree could not be analysed: vanished anchor, instance
        floor undercut, checker self-test failed, internal error).
"""
import argparse
import importlib
import json
import os
import sys
import traceback

HERE = os.path.dirname(os.path.abspath(__file__))
sys.path.insert(0, HERE)

from sa.loader import Repo, AnalysisError  # noqa: E402
from sa.report import Report  # noqa: E402

PROPS = ["C%02d" % i for i in range(1, 21)]


def run_property(prop, tier, repo_root, seed=0, write_evidence=True, evidence_dir=None, quiet=False):
    mod = importlib.import_module("sa.rules." + prop.lower())
    extra = ("examples",) if tier == "thorough" else ()
    repo = Repo(repo_root, extra_dirs=extra)
    rep = Report(prop, tier, seed, repo_root)
    mod.check(repo, rep, tier)
    rc = rep.finish(repo, write_evidence=write_evidence, evidence_dir=evidence_dir, quiet=quiet)
    return rc, rep


def main(argv=None):
    ap = argparse.ArgumentParser()
    ap.add_argument("prop")
    ap.add_argument("--tier", default=os.environ.get("VERIF_TIER") or "quick", choices=["quick", "thorough"])
    ap.add_argument("--repo", default=os.environ.get("PYSNARK_SA_REPO") or "/repo")
    ap.add_argument("--replay", default=None)
    ap.add_argument("--no-selftest", action="store_true")
    a = ap.parse_args(argv)
    prop = a.prop.upper()
    try:
        seed = int(os.environ.get("VERIF_SEED", "0") or 0)
    except ValueError:
        seed = 0
    if prop not in PROPS:
        print("ANALYSIS-ERROR unknown property %s" % prop)
        return 2
    try:
        if a.replay:
            with open(a.replay) as fh:
                rec = json.load(fh)
            rc, rep = run_property(prop, "quick", a.repo, seed, write_evidence=False, quiet=True)
            hit = [i for i in rep.violations if i.key == rec.get("key")]
            if hit:
                i = hit[0]
                print("VIOLATION property=%s replay=%s" % (prop, a.replay))
                print("  rule=%s at %s in %s: %s" % (i.rule, i.where, i.construct, i.msg))
                return 1
            print("replay: finding %s no longer reported on %s" % (rec.get("key"), a.repo))
            return 0
        rc, rep = run_property(prop, a.tier, a.repo, seed,
                               evidence_dir=os.environ.get("PYSNARK_SA_EVIDENCE_DIR") or None)
        if a.tier == "thorough" and not a.no_selftest and rc == 0:
            # sensitivity self-test of the checker on scratch copies; it validates the checker, not the tree:
            # its outcome is printed and recorded in the evidence, the verdict stays the one computed on /repo
            from sa import selftest
            selftest.run(prop, a.repo, seed, evidence_dir=os.environ.get("PYSNARK_SA_EVIDENCE_DIR") or None)
        return rc
    except AnalysisError as e:
        print("ANALYSIS-ERROR property=%s %s" % (prop, e))
        return 2
    except KeyError as e:  # a method / function / class the rules are anchored in is gone from the tree
        print("ANALYSIS-ERROR property=%s anchor not found in the tree: %s" % (prop, e))
        traceback.print_exc()
        return 2
    except Exception:  # internal error of the checker: never a verdict
        print("ANALYSIS-ERROR property=%s internal error" % prop)
        traceback.print_exc()
        return 2


if __name__ == "__main__":
    sys.exit(main())
