"""eval_meta.py <transform> : export /repo HEAD to a scratch dir, apply tools/metamorph.py <transform>, run the pinned tests and
all 20 checks; prints what alarms.  `none` = only the ast.unparse round trip."""
import os, shutil, subprocess, sys, tempfile
PY = "/venv/bin/python"
name = sys.argv[1]
tmp = tempfile.mkdtemp(prefix="pysnark-meta-")
try:
    p1 = subprocess.Popen(["git", "-C", "/repo", "archive", "HEAD"], stdout=subprocess.PIPE)
    subprocess.check_call(["tar", "-x", "-C", tmp], stdin=p1.stdout); p1.wait()
    if name != "none":
        for nm in name.split("+"):
            print(subprocess.run([PY, "/verif/sa/metamorph.py", nm, tmp], capture_output=True, text=True).stdout.strip())
    else:
        subprocess.run([PY, "-c", "import ast,glob,sys\nfor p in glob.glob(sys.argv[1]+'/pysnark/**/*.py', recursive=True):\n    if '/zkinterface/' in p and not p.endswith('backend.py'): continue\n    s=open(p).read(); open(p,'w').write(ast.unparse(ast.parse(s))+'\\n')", tmp])
    env = dict(os.environ, PYTHONPATH=tmp); env.pop("PYSNARK_BACKEND", None)
    r = subprocess.run([PY, "-m", "pytest", "-q", "-p", "no:cacheprovider", "-x"], cwd=tmp, env=env, capture_output=True, text=True)
    print("tests:", r.stdout.strip().splitlines()[-1][:100] if r.stdout.strip() else r.stderr[-200:])
    env = dict(os.environ, PYSNARK_SA_EVIDENCE_DIR=os.path.join(tmp, "ev"))
    procs = []
    for i in range(1, 21):
        p = "C%02d" % i
        procs.append((p, subprocess.Popen([PY, "/verif/check.py", p, "--repo", tmp], stdout=subprocess.PIPE, stderr=subprocess.STDOUT, text=True, env=env)))
    for p, pr in procs:
        out = pr.communicate()[0]
        if pr.returncode != 0:
            lines = [l.strip()[:260] for l in out.splitlines() if l.strip().startswith("rule=") or "ANALYSIS-ERROR" in l]
            print("  %s exit %d: %s" % (p, pr.returncode, " || ".join(lines[:5])))
    print("done", name)
finally:
    shutil.rmtree(tmp, ignore_errors=True)
