import sys, os, time, signal, cProfile, pstats
sys.path.insert(0, os.path.dirname(os.path.dirname(os.path.abspath(__file__))))
from sa.loader import Repo
from sa.absint import Interp
from sa import efftree
repo = Repo("/repo")
it = Interp(repo)
pr = cProfile.Profile()
def handler(sig, frm):
    pr.disable()
    pstats.Stats(pr).sort_stats('cumulative').print_stats(25)
    big = sorted(((efftree.size(t),k[0]) for k,(t,v) in it.memo.items()), reverse=True)[:10]
    print(big)
    os._exit(1)
signal.signal(signal.SIGALRM, handler); signal.alarm(15)
pr.enable()
it.run_all()
pr.disable()
print("done")
