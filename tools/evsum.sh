#!/bin/sh
# evsum.sh Cxx X : one-line summary of eval_seed
/venv/bin/python /verif/tools/eval_seed.py $1 $2 2>&1 | grep -v conda | /venv/bin/python -c "
import sys,json
t=sys.stdin.read()
try:
    d=json.loads(t)
except Exception:
    print('$1 $2 EVAL FAILED', t[-400:]); sys.exit()
print(d['property'],d['variant'],'tests_green',d['tests_green'],'demo_ok',d['demo_ok'],'files',d['files'],'detected_by',d['detected_by'])
for k,v in d['reports'].items(): print('   ',k,v[0][:190])
if not d['demo_ok']: print('   demo clean/dirty', d['demo_clean'], d['demo_dirty'], d['demo_clean_tail'], d['demo_dirty_tail'])
if not d['tests_green']: print('   tests', d['tests'])
"
