import sys, os, time, signal, traceback
sys.path.insert(0, os.path.dirname(os.path.dirname(os.path.abspath(__file__))))
from sa.loader import Repo
from sa.absint import Interp
repo = Repo("/repo")
it = Interp(repo)
def handler(sig, frm):
    print("TIMEOUT; memo", len(it.memo), "active", len(it.active), "depth", it.depth)
    for k in list(it.active)[:40]: print("  active", k[0], [ (p,v[0]) for p,v in k[1]])
    from collections import Counter
    c = Counter(k[0] for k in it.memo)
    print(c.most_common(15))
    sys.exit(1)
signal.signal(signal.SIGALRM, handler); signal.alarm(int(sys.argv[1]) if len(sys.argv)>1 else 20)
t=time.time()
it.run_all()
print("done", time.time()-t, len(it.memo))
