"""showflat.py <patch.diff|-> <fq substring> : apply the patch to a scratch export of /repo HEAD (or use /repo for '-'),
flatten, and print the flattened source of every function whose fq contains the substring (plus the flatten log)."""
import ast, os, shutil, subprocess, sys, tempfile
sys.path.insert(0, os.path.dirname(os.path.dirname(os.path.abspath(__file__))))
from sa.loader import Repo
from sa.flatten import flatten_repo
patch, pat = sys.argv[1], sys.argv[2]
tmp = None
root = "/repo"
try:
    if patch != "-":
        tmp = tempfile.mkdtemp(prefix="pysnark-sf-")
        p1 = subprocess.Popen(["git", "-C", "/repo", "archive", "HEAD", "pysnark", "examples"], stdout=subprocess.PIPE)
        subprocess.check_call(["tar", "-x", "-C", tmp], stdin=p1.stdout); p1.wait()
        subprocess.check_call(["git", "init", "-q"], cwd=tmp)
        subprocess.check_call(["git", "apply", "--whitespace=nowarn", os.path.abspath(patch)], cwd=tmp)
        root = tmp
    repo = Repo(root)
    r = flatten_repo(repo)
    for m in repo.modules.values():
        for fi in m.functions.values():
            if pat in fi.fq and not isinstance(fi.node, ast.Lambda):
                print("#", fi.fq); print(ast.unparse(fi.node)); print()
    log = getattr(repo, "flatten_log", None) or (r if isinstance(r, list) else None)
    if log: print("LOG", [l for l in log if "failed" in str(l)])
finally:
    if tmp: shutil.rmtree(tmp, ignore_errors=True)
