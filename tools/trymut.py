"""trymut.py <PROP[,PROP]> <relfile> <old> <new>  : apply a textual edit to a scratch copy and run the checks."""
import sys, os, shutil, tempfile, subprocess
props, rel, old, new = sys.argv[1:5]
tmp = tempfile.mkdtemp(prefix="pysnark-sa-")
try:
    shutil.copytree("/repo/pysnark", os.path.join(tmp, "pysnark"))
    if os.path.isdir("/repo/examples"): shutil.copytree("/repo/examples", os.path.join(tmp, "examples"))
    p = os.path.join(tmp, rel)
    s = open(p).read()
    if old not in s: print("OLD TEXT NOT FOUND"); sys.exit(3)
    s = s.replace(old, new, 1)
    open(p, "w").write(s)
    subprocess.run(["/venv/bin/python", "-m", "py_compile", p], check=True)
    for prop in props.split(","):
        r = subprocess.run(["/venv/bin/python", "/verif/check.py", prop, "--repo", tmp, "--no-selftest"], capture_output=True, text=True,
                           env=dict(os.environ, PYSNARK_SA_EVIDENCE_DIR=os.path.join(tmp,"ev")))
        print("exit", r.returncode)
        print("\n".join(l for l in r.stdout.splitlines() if not l.startswith("  R-") )[:3000])
        if r.stderr.strip(): print(r.stderr[-2000:])
finally:
    shutil.rmtree(tmp, ignore_errors=True)
