"""trypatch.py <patch.diff> <PROP[,PROP...]> : apply a patch to a scratch export of /repo HEAD and run the given checks."""
import os, shutil, subprocess, sys, tempfile
patch, props = sys.argv[1], sys.argv[2]
tmp = tempfile.mkdtemp(prefix="pysnark-sa-")
try:
    p1 = subprocess.Popen(["git", "-C", "/repo", "archive", "HEAD"], stdout=subprocess.PIPE)
    subprocess.check_call(["tar", "-x", "-C", tmp], stdin=p1.stdout); p1.wait()
    subprocess.check_call(["git", "init", "-q"], cwd=tmp)
    r = subprocess.run(["git", "apply", "--whitespace=nowarn", os.path.abspath(patch)], cwd=tmp, capture_output=True, text=True)
    if r.returncode != 0:
        print("PATCH FAILED", r.stderr[-300:]); sys.exit(3)
    for prop in props.split(","):
        r = subprocess.run(["/venv/bin/python", "/verif/check.py", prop, "--repo", tmp], capture_output=True, text=True,
                           env=dict(os.environ, PYSNARK_SA_EVIDENCE_DIR=os.path.join(tmp, "ev")))
        print(prop, "exit", r.returncode)
        print("\n".join(l for l in r.stdout.splitlines() if l.startswith("VIOL") or l.strip().startswith("rule=") or l.strip().startswith("term") or "ANALYSIS" in l)[:1500])
        if r.returncode == 2: print(r.stdout[-600:], r.stderr[-600:])
finally:
    shutil.rmtree(tmp, ignore_errors=True)
