"""mkvariant.py <base.patch.diff> <out.patch.diff> <file> <old> <new> : apply the base patch to a scratch export of /repo HEAD,
replace the exact text <old> by <new> in <file>, run the pinned tests, write the combined diff (against HEAD) to <out>."""
import os, shutil, subprocess, sys, tempfile
base, out, f, old, new = sys.argv[1:6]
old = old.encode().decode("unicode_escape"); new = new.encode().decode("unicode_escape")
tmp = tempfile.mkdtemp(prefix="pysnark-var-")
try:
    p1 = subprocess.Popen(["git", "-C", "/repo", "archive", "HEAD"], stdout=subprocess.PIPE)
    subprocess.check_call(["tar", "-x", "-C", tmp], stdin=p1.stdout); p1.wait()
    subprocess.check_call(["git", "init", "-q"], cwd=tmp)
    subprocess.check_call(["git", "add", "-A"], cwd=tmp)
    subprocess.check_call(["git", "-c", "user.email=a@b", "-c", "user.name=a", "commit", "-qm", "base"], cwd=tmp)
    if base != "-":
        subprocess.check_call(["git", "apply", "--whitespace=nowarn", base], cwd=tmp)
    p = os.path.join(tmp, f)
    s = open(p, newline="").read()
    if s.count(old) != 1:
        sys.exit("anchor occurs %d times" % s.count(old))
    open(p, "w", newline="").write(s.replace(old, new))
    env = dict(os.environ, PYTHONPATH=tmp); env.pop("PYSNARK_BACKEND", None)
    r = subprocess.run(["/venv/bin/python", "-m", "pytest", "-q", "-p", "no:cacheprovider", "-x"], cwd=tmp, env=env, capture_output=True, text=True)
    print("tests:", r.stdout.strip().splitlines()[-1][:100])
    d = subprocess.run(["git", "diff"], cwd=tmp, capture_output=True).stdout      # bytes: files with CRLF endings stay as they are
    open(out, "wb").write(d)
    print("wrote", out, len(d.splitlines()), "lines")
finally:
    shutil.rmtree(tmp, ignore_errors=True)
