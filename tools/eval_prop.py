"""eval_prop.py <Cxx> : apply SEED_ROOT/<Cxx>/SEED/P.patch.diff (a behaviour-CHANGING but property-preserving change) to a scratch
export of /repo HEAD, run the pinned tests, the change's own evidence program P.check.py, and all 20 checks.  Any VIOLATION /
ANALYSIS-ERROR is a candidate false alarm (to be judged against the property text)."""
import os, shutil, subprocess, sys, tempfile
PY = "/venv/bin/python"
k = sys.argv[1]
WHICH = sys.argv[2] if len(sys.argv) > 2 else "P"      # P: property-preserving (P.check.py) | D: disguised defect (D.demo.py)
root = os.path.join(os.environ.get("SEED_ROOT", "/tmp/seed7"), k, "SEED")
patch = os.path.join(root, WHICH + ".patch.diff")
tmp = tempfile.mkdtemp(prefix="pysnark-prop-")
try:
    p1 = subprocess.Popen(["git", "-C", "/repo", "archive", "HEAD"], stdout=subprocess.PIPE)
    subprocess.check_call(["tar", "-x", "-C", tmp], stdin=p1.stdout); p1.wait()
    subprocess.check_call(["git", "init", "-q"], cwd=tmp)
    r = subprocess.run(["git", "apply", "--whitespace=nowarn", patch], cwd=tmp, capture_output=True, text=True)
    if r.returncode != 0:
        print(k, "PATCH DOES NOT APPLY", r.stderr[-200:]); sys.exit(3)
    env = dict(os.environ, PYTHONPATH=tmp); env.pop("PYSNARK_BACKEND", None)
    r = subprocess.run([PY, "-m", "pytest", "-q", "-p", "no:cacheprovider", "-x"], cwd=tmp, env=env, capture_output=True, text=True)
    print(k, WHICH, "tests:", r.stdout.strip().splitlines()[-1][:80] if r.stdout.strip() else "?")
    chk = os.path.join(root, "P.check.py" if WHICH == "P" else WHICH + ".demo.py")
    if os.path.exists(chk):
        wd = os.path.join(tmp, "_chk"); os.makedirs(wd)
        try:
            r = subprocess.run([PY, chk], cwd=wd, env=env, capture_output=True, text=True, timeout=1200)
            print(k, WHICH, "own program exit", r.returncode, (r.stdout + r.stderr).strip().splitlines()[-1][:140] if (r.stdout + r.stderr).strip() else "")
        except subprocess.TimeoutExpired:
            print(k, "P.check TIMEOUT")
    env = dict(os.environ, PYSNARK_SA_EVIDENCE_DIR=os.path.join(tmp, "ev"))
    procs = [(("C%02d" % i), subprocess.Popen([PY, "/verif/check.py", "C%02d" % i, "--repo", tmp], stdout=subprocess.PIPE, stderr=subprocess.STDOUT, text=True, env=env)) for i in range(1, 21)]
    clean = True
    for p, pr in procs:
        out = pr.communicate()[0]
        if pr.returncode != 0:
            clean = False
            lines = [l.strip()[:300] for l in out.splitlines() if l.strip().startswith("rule=") or "ANALYSIS-ERROR" in l or l.strip().startswith("term")]
            print("   %s exit %d: %s" % (p, pr.returncode, " || ".join(lines[:6])))
    if clean:
        print(k, WHICH, "all 20 checks silent")
finally:
    shutil.rmtree(tmp, ignore_errors=True)
