"""Fill the seeded-changes table of DESIGN.md from seeded/*/meta.json (+ first line of notes.md)."""
import glob, json, os, re
V = os.path.dirname(os.path.dirname(os.path.abspath(__file__)))
rows = ["| change | property | what it is (needs to manifest) | files | reported by (own property first) | first report |", "|---|---|---|---|---|---|"]
for d in sorted(glob.glob(os.path.join(V, "seeded", "*"))):
    mp = os.path.join(d, "meta.json")
    if not os.path.exists(mp):
        continue
    m = json.load(open(mp))
    notes = ""
    np_ = os.path.join(d, "notes.md")
    if os.path.exists(np_):
        txt = [l.strip() for l in open(np_).read().splitlines() if l.strip() and not l.startswith("#")]
        notes = " ".join(txt)[:230].replace("|", "/")
    det = m.get("detected_by", [])
    own = m["property"]
    det2 = ([own] if own in det else []) + [x for x in det if x != own]
    first = ""
    if own in m.get("reports", {}):
        first = m["reports"][own][0]
    elif det:
        first = m["reports"][det[0]][0]
    mm = re.match(r"rule=(\S+) at (\S+) in (\S+):", first)
    first = "%s at %s" % (mm.group(1), mm.group(3).split(":")[-1]) if mm else first[:60]
    rows.append("| %s | %s | %s | %s | %s | %s |" % (os.path.basename(d), own, notes, ", ".join(os.path.basename(f) for f in m.get("files", [])),
                                                   ", ".join(det2) or "**none**", first))
p = os.path.join(V, "DESIGN.md")
s = open(p).read()
a, b = s.index("<!-- SEEDED-TABLE-BEGIN -->"), s.index("<!-- SEEDED-TABLE-END -->")
s = s[:a] + "<!-- SEEDED-TABLE-BEGIN -->\n" + "\n".join(rows) + "\n" + s[b:]
open(p, "w").write(s)
print(len(rows) - 2, "seeded changes tabulated")
