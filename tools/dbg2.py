import sys, os
sys.path.insert(0, os.path.dirname(os.path.dirname(os.path.abspath(__file__))))
from sa.loader import Repo
from sa.absint import Interp
repo = Repo("/repo")
it = Interp(repo)
env = it.module_env(repo.module("pysnark.runtime"))
for k in ("num_constraints","_ignore_errors","guard","bitlength","backend","autoprove","LinComb","backends"): print(k, env.get(k))
print(it.class_attr)
