import sys, os
sys.path.insert(0, os.path.dirname(os.path.dirname(os.path.abspath(__file__))))
from sa.loader import Repo
from sa.absint import Interp
from sa.efftree import render
repo = Repo(sys.argv[1] if len(sys.argv)>1 else "/repo")
it = Interp(repo)
it.run_all()
pat = sys.argv[2] if len(sys.argv)>2 else "pysnark.runtime:"
for k,(t,v) in sorted(it.memo.items(), key=lambda kv: str(kv[0][0])):
    if pat in k[0] and all(x[1][0]==('?',) or x[0] in('self','cls') for x in k[1]):
        print(k[0], '->', render(t)[:300] or 'ε', '   ret', v)
print("tainted alts", len(it.tainted_alts), "raise", len(it.raise_paths), "lc_taint", len(it.lc_taint), "tloops", len(it.tainted_loops))
