#!/bin/sh
# run every check's quick command; print exit codes and timing
cd /verif
for i in 01 02 03 04 05 06 07 08 09 10 11 12 13 14 15 16 17 18 19 20; do
  s=$(date +%s.%N)
  /venv/bin/python check.py C$i --tier ${1:-quick} > /tmp/runall_C$i.out 2>&1; rc=$?
  e=$(date +%s.%N)
  printf "C%s rc=%s %.1fs %s\n" $i $rc $(echo "$e - $s" | bc) "$(tail -1 /tmp/runall_C$i.out | cut -c1-110)"
done
