import sys, os
sys.path.insert(0, os.path.dirname(os.path.dirname(os.path.abspath(__file__))))
from sa.loader import Repo
from sa.absint import Interp
from sa.efftree import render
repo = Repo("/repo")
it = Interp(repo)
it.run_all()
print(it.global_taint)
fi = repo.fn("pysnark.runtime","ignore_errors")
print(it.analyze(fi, []))
print(it.analyze_base(fi))
fi = repo.fn("pysnark.runtime","add_constraint_unsafe")
print(render(it.analyze_base(fi)[0]))
print(it.module_env(repo.module("pysnark.runtime")).get("num_constraints"))
