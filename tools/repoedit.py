"""repoedit.py <file> <old> <new>: exact text replacement preserving the file's line endings (one occurrence)."""
import sys
p, old, new = sys.argv[1:4]
b = open(p, "rb").read()
crlf = b"\r\n" in b
o, n = old.encode(), new.encode()
if crlf:
    o, n = o.replace(b"\n", b"\r\n"), n.replace(b"\n", b"\r\n")
assert b.count(o) == 1, "old text occurs %d times" % b.count(o)
open(p, "wb").write(b.replace(o, n))
print("edited", p, "crlf" if crlf else "lf")
