"""Regenerate /verif/MANIFEST.json from the claim table below (run after adding a rule module)."""
import json
import os
import sys

HERE = os.path.dirname(os.path.dirname(os.path.abspath(__file__)))
sys.path.insert(0, HERE)
from claims import CLAIMS, NOT_APPLICABLE  # noqa: E402

PY = "/venv/bin/python"
BASELINE = ("cd /repo && /venv/bin/python -m pytest -ra -q -p no:cacheprovider --timeout=900 "
            "--continue-on-collection-errors")

checks = []
for pid in sorted(CLAIMS):
    c = CLAIMS[pid]
    if not os.path.exists(os.path.join(HERE, "sa", "rules", pid.lower() + ".py")):
        continue
    checks.append({
        "property_id": pid,
        "quick_cmd": "%s check.py %s --tier quick" % (PY, pid),
        "thorough_cmd": "%s check.py %s --tier thorough" % (PY, pid),
        "evidence_file": "evidence/%s.json" % pid,
        "replay_cmd_template": "%s check.py %s --replay {path}" % (PY, pid),
        "engine": "sa",
        "level_claimed": {"category": "other", "text": c["text"], "design_ref": "DESIGN.md section 2, " + pid},
        "level_note": c["note"],
        "technique": c["technique"],
    })
claimed = {c["property_id"] for c in checks}
na = []
for pid in ["C%02d" % i for i in range(1, 21)]:
    if pid not in claimed:
        na.append({"property_id": pid, "reason": NOT_APPLICABLE.get(
            pid, "static rules for this property are designed (DESIGN.md section 2) but not yet implemented in this "
                 "commit; no claim is made until the check exists")})
man = {
    "version": 1,
    "setup_cmd": "%s -m py_compile check.py sa/*.py sa/rules/*.py" % PY,
    "hooks": {"guard": "PYSNARK_VERIF", "enable": "none needed: the checks parse /repo's working tree, nothing is "
              "instrumented", "baseline_off_cmd": BASELINE, "source_commits": [], "add_only": True},
    "engines": [{"name": "sa", "path": "sa/", "serves_properties": sorted(claimed),
                 "kind_free_text": "repository-specific static analysis over the Python ast: abstract interpretation "
                                   "(operand kinds x taint x emission-effect terms), statement CFG queries, polynomial "
                                   "normal forms, table/literal checks"}],
    "checks": checks,
    "not_applicable": na,
    "notes": "All checks are static (ast only; /repo is never imported or run). Exit 0 held / 1 VIOLATION / "
             "2 ANALYSIS-ERROR. Known findings: known_findings.txt.",
}
with open(os.path.join(HERE, "MANIFEST.json"), "w") as fh:
    json.dump(man, fh, indent=1)
print("claimed:", sorted(claimed))
