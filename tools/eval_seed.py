"""eval_seed.py <Cxx> <A|B> [--keep NAME]

Confirms a seeded change produced by a sub-agent (in /tmp/seed/<Cxx>/SEED/<X>.patch.diff + <X>.demo.py):
  1. the patch applies to a clean export of /repo HEAD,
  2. the pinned test suite stays green with it,
  3. the demo passes without the patch and fails with it,
  4. which of the 20 checks report a violation on the patched tree.
With --keep NAME the change is stored as /verif/seeded/NAME/{patch.diff, demo.py, notes.md, meta.json}.
All scratch copies live under a temp dir and are removed.
"""
import json
import os
import shutil
import subprocess
import sys
import tempfile

VERIF = os.path.dirname(os.path.dirname(os.path.abspath(__file__)))
PY = "/venv/bin/python"


def sh(cmd, cwd=None, env=None, timeout=900):
    r = subprocess.run(cmd, cwd=cwd, env=env, capture_output=True, text=True, timeout=timeout)
    return r.returncode, r.stdout + r.stderr


def export_tree(dst):
    os.makedirs(dst)
    p1 = subprocess.Popen(["git", "-C", "/repo", "archive", "HEAD"], stdout=subprocess.PIPE)
    subprocess.check_call(["tar", "-x", "-C", dst], stdin=p1.stdout)
    p1.wait()
    subprocess.check_call(["git", "init", "-q"], cwd=dst)


def main():
    prop, x = sys.argv[1], sys.argv[2]
    keep = sys.argv[sys.argv.index("--keep") + 1] if "--keep" in sys.argv else None
    seed = os.path.join(os.environ.get("SEED_ROOT", "/tmp/seed"), prop, "SEED")
    patch = os.path.join(seed, "%s.patch.diff" % x)
    demo = os.path.join(seed, "%s.demo.py" % x)
    notes = os.path.join(seed, "%s.notes.md" % x)
    for f in (patch, demo):
        if not os.path.exists(f):
            print("MISSING", f)
            return 3
    tmp = tempfile.mkdtemp(prefix="pysnark-seed-")
    res = {"property": prop, "variant": x}
    try:
        clean, dirty = os.path.join(tmp, "clean"), os.path.join(tmp, "dirty")
        export_tree(clean)
        export_tree(dirty)
        rc, out = sh(["git", "apply", "--whitespace=nowarn", patch], cwd=dirty)
        if rc != 0:
            rc, out = sh(["patch", "-p1", "-i", patch], cwd=dirty)
        res["applies"] = rc == 0
        if rc != 0:
            print("PATCH DOES NOT APPLY:\n", out[-800:])
            return 3
        files = [l[6:] for l in open(patch).read().splitlines() if l.startswith("+++ b/")]
        res["files"] = files
        rc, out = sh([PY, "-m", "compileall", "-q", "pysnark"], cwd=dirty)
        res["compiles"] = rc == 0
        env = dict(os.environ, PYTHONPATH=dirty)
        env.pop("PYSNARK_BACKEND", None)
        rc, out = sh([PY, "-m", "pytest", "-q", "-p", "no:cacheprovider", "-x", "--timeout=900"], cwd=dirty, env=env)
        tail = [l for l in out.splitlines() if "passed" in l or "failed" in l or "error" in l.lower()][-1:] or [out[-200:]]
        res["tests"] = tail[0].strip()
        res["tests_green"] = rc == 0 and "75 passed" in out
        for label, tree in (("clean", clean), ("dirty", dirty)):
            wd = os.path.join(tmp, "run_" + label)
            os.makedirs(wd)
            env = dict(os.environ, PYTHONPATH=tree)
            env.pop("PYSNARK_BACKEND", None)
            try:
                rc, out = sh([PY, demo], cwd=wd, env=env, timeout=600)
            except subprocess.TimeoutExpired:
                rc, out = 124, "timeout"
            res["demo_" + label] = rc
            res["demo_%s_tail" % label] = out.strip().splitlines()[-3:]
        res["demo_ok"] = res["demo_clean"] == 0 and res["demo_dirty"] != 0
        # run the checks on the patched tree
        det = {}
        env = dict(os.environ, PYSNARK_SA_EVIDENCE_DIR=os.path.join(tmp, "ev"), VERIF_TIER="quick")
        for i in range(1, 21):
            p = "C%02d" % i
            rc, out = sh([PY, os.path.join(VERIF, "check.py"), p, "--repo", dirty], env=env)
            if rc == 1:
                det[p] = [l.strip()[:220] for l in out.splitlines() if l.strip().startswith("rule=")][:3]
            elif rc == 2:
                det[p] = ["ANALYSIS-ERROR: " + out.strip().splitlines()[0][:200]]
        res["detected_by"] = sorted(k for k, v in det.items() if not v[0].startswith("ANALYSIS-ERROR"))
        res["reports"] = det
        print(json.dumps(res, indent=1))
        if keep:
            d = os.path.join(VERIF, "seeded", keep)
            os.makedirs(d, exist_ok=True)
            shutil.copy(patch, os.path.join(d, "patch.diff"))
            shutil.copy(demo, os.path.join(d, "demo.py"))
            if os.path.exists(notes):
                shutil.copy(notes, os.path.join(d, "notes.md"))
            meta = {"property": prop, "variant": x, "files": files,
                    "needs_to_manifest": "see notes.md",
                    "confirmed": {"patch_applies": res["applies"], "tests_with_change": res["tests"],
                                  "demo_exit_without_change": res["demo_clean"], "demo_exit_with_change": res["demo_dirty"]},
                    "ran": ["git apply patch.diff on an export of /repo HEAD", "pytest (75 pinned tests) with the change",
                            "demo.py without and with the change", "all 20 checks with --repo <patched copy>"],
                    "detected_by": res["detected_by"], "reports": det}
            with open(os.path.join(d, "meta.json"), "w") as fh:
                json.dump(meta, fh, indent=1)
            print("kept as", d)
        return 0
    finally:
        shutil.rmtree(tmp, ignore_errors=True)


if __name__ == "__main__":
    sys.exit(main())
