"""eval_refac.py <Rk> : apply each refactoring patch /tmp/seed/<Rk>/SEED/R*.patch.diff to a scratch export of /repo HEAD,
run the test suite and all 20 checks; any VIOLATION / ANALYSIS-ERROR is a false alarm of the machinery."""
import glob, os, shutil, subprocess, sys, tempfile
from concurrent.futures import ThreadPoolExecutor
PY = "/venv/bin/python"
def one(patch):
    tmp = tempfile.mkdtemp(prefix="pysnark-refac-")
    out = []
    try:
        p1 = subprocess.Popen(["git", "-C", "/repo", "archive", "HEAD"], stdout=subprocess.PIPE)
        subprocess.check_call(["tar", "-x", "-C", tmp], stdin=p1.stdout); p1.wait()
        subprocess.check_call(["git", "init", "-q"], cwd=tmp)
        r = subprocess.run(["git", "apply", "--whitespace=nowarn", patch], cwd=tmp, capture_output=True, text=True)
        if r.returncode != 0:
            return patch, ["PATCH DOES NOT APPLY " + r.stderr[-200:]]
        env = dict(os.environ, PYTHONPATH=tmp); env.pop("PYSNARK_BACKEND", None)
        r = subprocess.run([PY, "-m", "pytest", "-q", "-p", "no:cacheprovider", "-x"], cwd=tmp, env=env, capture_output=True, text=True)
        if "75 passed" not in r.stdout:
            out.append("TESTS NOT GREEN: " + r.stdout.strip().splitlines()[-1][:100])
        # a repaired refactoring comes with the demo of the defect it no longer has: it must pass
        demo = os.path.join(os.path.dirname(os.path.dirname(patch)), "GIVEN", os.path.basename(patch).split(".")[0] + ".demo.py")
        if os.path.exists(demo):
            wd = os.path.join(tmp, "_demo"); os.makedirs(wd)
            env = dict(os.environ, PYTHONPATH=tmp); env.pop("PYSNARK_BACKEND", None)
            try:
                r = subprocess.run([PY, demo], cwd=wd, env=env, capture_output=True, text=True, timeout=600)
                if r.returncode != 0:
                    out.append("DEMO STILL FAILS (exit %d): %s" % (r.returncode, (r.stdout + r.stderr).strip().splitlines()[-1][:160]))
            except subprocess.TimeoutExpired:
                out.append("DEMO TIMEOUT")
        env = dict(os.environ, PYSNARK_SA_EVIDENCE_DIR=os.path.join(tmp, "ev"))
        for i in range(1, 21):
            p = "C%02d" % i
            r = subprocess.run([PY, "/verif/check.py", p, "--repo", tmp], capture_output=True, text=True, env=env)
            if r.returncode != 0:
                lines = [l.strip()[:230] for l in r.stdout.splitlines() if l.strip().startswith("rule=") or "ANALYSIS-ERROR" in l or l.strip().startswith("term")]
                out.append("%s exit %d: %s" % (p, r.returncode, " || ".join(lines[:4])))
        return patch, out
    finally:
        shutil.rmtree(tmp, ignore_errors=True)
k = sys.argv[1]
patches = sorted(glob.glob(os.path.join(os.environ.get("SEED_ROOT", "/tmp/seed"), k, "SEED", os.environ.get("ONLY", "*") + ".patch.diff")))
with ThreadPoolExecutor(max_workers=5) as ex:
    for patch, out in ex.map(one, patches):
        print(os.path.basename(patch), "->", "clean (no alarm)" if not out else "")
        for o in out: print("    ", o)
