"""rebase_patches.py [--write]: find stored patches (twins/*.patch.diff, seeded/*/patch.diff) that no longer apply to
/repo HEAD (after a fix: commit) and rebase them: the patch is applied on the newest ancestor commit where it still
applies, committed in a scratch clone, and cherry-picked onto HEAD; with --write the stored patch is replaced."""
import glob, os, shutil, subprocess, sys, tempfile
VERIF = os.path.dirname(os.path.dirname(os.path.abspath(__file__)))
write = "--write" in sys.argv

def sh(cmd, cwd):
    r = subprocess.run(cmd, cwd=cwd, capture_output=True, text=True)
    return r.returncode, r.stdout + r.stderr

tmp = tempfile.mkdtemp(prefix="pysnark-rebase-")
try:
    clone = os.path.join(tmp, "c")
    subprocess.check_call(["git", "clone", "-q", "/repo", clone])
    sh(["git", "config", "user.email", "x@x"], clone); sh(["git", "config", "user.name", "x"], clone)
    head = sh(["git", "rev-parse", "HEAD"], clone)[1].strip()
    anc = sh(["git", "rev-list", "--max-count=15", "HEAD"], clone)[1].split()
    patches = sorted(glob.glob(os.path.join(VERIF, "twins", "*.patch.diff")) + glob.glob(os.path.join(VERIF, "seeded", "*", "patch.diff")))
    for p in patches:
        sh(["git", "checkout", "-q", "-f", head], clone); sh(["git", "clean", "-fdq"], clone)
        rc, _ = sh(["git", "apply", "--check", "--whitespace=nowarn", p], clone)
        if rc == 0:
            continue
        done = False
        for a in anc[1:]:
            sh(["git", "checkout", "-q", "-f", a], clone)
            rc, _ = sh(["git", "apply", "--whitespace=nowarn", p], clone)
            if rc != 0:
                continue
            sh(["git", "add", "-A"], clone); sh(["git", "commit", "-qm", "p"], clone)
            c = sh(["git", "rev-parse", "HEAD"], clone)[1].strip()
            sh(["git", "checkout", "-q", "-f", head], clone)
            rc, out = sh(["git", "cherry-pick", "--no-commit", c], clone)
            if rc != 0:
                print("CONFLICT", os.path.relpath(p, VERIF), out.strip().splitlines()[-1][:100])
                sh(["git", "cherry-pick", "--abort"], clone); sh(["git", "reset", "-q", "--hard", head], clone)
            else:
                diff = subprocess.run(["git", "diff", "--cached", "--binary", head], cwd=clone, capture_output=True).stdout
                print("REBASED", os.path.relpath(p, VERIF), "from", a[:7], "(%d bytes)" % len(diff))
                if write:
                    open(p, "wb").write(diff)
                sh(["git", "reset", "-q", "--hard", head], clone)
            done = True
            break
        if not done:
            print("NO-BASE", os.path.relpath(p, VERIF))
finally:
    shutil.rmtree(tmp, ignore_errors=True)
