import sys, os
sys.path.insert(0, os.path.dirname(os.path.dirname(os.path.abspath(__file__))))
from sa.loader import Repo, norm
from sa.absint import Interp
repo = Repo("/repo")
it = Interp(repo); it.run_all()
for (node, fv, args, kw, base, conds) in it.call_records.get("pysnark.branching:ObliviousIterator.__next__", []):
    print(node.lineno, norm(node)[:80], '| fv', fv, getattr(fv,'fn',None) and (fv.fn if not hasattr(fv.fn,'fi') else fv.fn.fi.fq))
