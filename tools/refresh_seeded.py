"""Recompute detected_by / reports in seeded/*/meta.json with the current machinery (patch applied to a scratch export)."""
import glob, json, os, shutil, subprocess, sys, tempfile
from concurrent.futures import ThreadPoolExecutor
V = os.path.dirname(os.path.dirname(os.path.abspath(__file__)))
PY = "/venv/bin/python"
def one(d):
    patch = os.path.join(d, "patch.diff"); mp = os.path.join(d, "meta.json")
    meta = json.load(open(mp))
    tmp = tempfile.mkdtemp(prefix="pysnark-seed-")
    try:
        p1 = subprocess.Popen(["git", "-C", "/repo", "archive", "HEAD"], stdout=subprocess.PIPE)
        subprocess.check_call(["tar", "-x", "-C", tmp], stdin=p1.stdout); p1.wait()
        subprocess.check_call(["git", "init", "-q"], cwd=tmp)
        r = subprocess.run(["git", "apply", "--whitespace=nowarn", patch], cwd=tmp, capture_output=True, text=True)
        if r.returncode != 0:
            return d, "PATCH FAILED"
        det = {}
        env = dict(os.environ, PYSNARK_SA_EVIDENCE_DIR=os.path.join(tmp, "ev"))
        for i in range(1, 21):
            p = "C%02d" % i
            r = subprocess.run([PY, os.path.join(V, "check.py"), p, "--repo", tmp], capture_output=True, text=True, env=env)
            if r.returncode == 1:
                det[p] = [l.strip()[:220] for l in r.stdout.splitlines() if l.strip().startswith("rule=")][:3]
            elif r.returncode == 2:
                det[p] = ["ANALYSIS-ERROR: " + (r.stdout.strip().splitlines() or ["?"])[0][:200]]
        meta["detected_by"] = sorted(k for k, v in det.items() if not v[0].startswith("ANALYSIS-ERROR"))
        meta["reports"] = det
        json.dump(meta, open(mp, "w"), indent=1)
        return d, meta["detected_by"]
    finally:
        shutil.rmtree(tmp, ignore_errors=True)
dirs = sorted(glob.glob(os.path.join(V, "seeded", "*")))
if len(sys.argv) > 1:
    dirs = [d for d in dirs if os.path.basename(d) in sys.argv[1:]]
with ThreadPoolExecutor(max_workers=8) as ex:
    for d, res in ex.map(one, dirs):
        meta = json.load(open(os.path.join(d, "meta.json")))
        own = meta["property"]
        flag = "" if (isinstance(res, list) and own in res) else "   <<<<<< NOT DETECTED BY OWN PROPERTY"
        print(os.path.basename(d), res, flag)
